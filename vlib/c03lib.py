"""Element integrals of the estimator's residual with an independent graded tensor rule (C03)."""
import numpy as np
from numpy.polynomial.legendre import leggauss

RULES = {'A': (16, 14), 'B': (22, 20),      # (Gauss points in the substituted time variable, points per space panel)
         'C': (40, 14), 'D': (45, 20)}      # second opinion for elements on which A and B disagree
PANELS = [0.0, 0.04, 0.2, 0.5, 0.8, 0.96, 1.0]


def gl01(p):
    x, w = leggauss(p)
    return 0.5 * (x + 1), 0.5 * w


def sub_intervals(lo, hi, cuts):
    pts = sorted({lo, hi} | {c for c in cuts if lo < c < hi})
    return list(zip(pts[:-1], pts[1:]))


def nodes_for(e_t, e_x, t_cuts, x_cuts, rule):
    """all nodes / weights of the rule on element e, as flat arrays (t, x, w)"""
    nt, px = RULES[rule]
    s, ws = gl01(nt)
    xg, wg = gl01(px)
    T, X, W = [], [], []
    for (ta, tb) in sub_intervals(e_t[0], e_t[1], t_cuts):
        tt = ta + (tb - ta) * s * s
        wt = (tb - ta) * 2 * s * ws
        for (xa, xb) in sub_intervals(e_x[0], e_x[1], x_cuts):
            xs, wx = [], []
            for pa, pb in zip(PANELS[:-1], PANELS[1:]):
                a, b = xa + (xb - xa) * pa, xa + (xb - xa) * pb
                xs.append(a + (b - a) * xg)
                wx.append((b - a) * wg)
            xs, wx = np.concatenate(xs), np.concatenate(wx)
            T.append(np.repeat(tt, len(xs)))
            X.append(np.tile(xs, len(tt)))
            W.append(np.outer(wt, wx).ravel())
    return np.concatenate(T), np.concatenate(X), np.concatenate(W)


def mesh_cuts(elems):
    ts = sorted({float(v) for e in elems for v in e.time_interval})
    xs = sorted({float(v) for e in elems for v in e.space_interval})
    return ts, xs


def min_end_distance(X, xs):
    xs = np.asarray(xs)
    d = np.abs(X[:, None] - xs[None, :])
    return float(np.min(d))


def element_report(residual, elems, rule_pair=('A', 'B'), point_budget=None, cut_elems=None):
    """per element: (mean_A, abs_A, mean_B, abs_B) ; returns list or a string reason when the mesh is outside the
    documented precondition (a node within 1e-5 of an element end point) or above the point budget"""
    t_cuts, x_cuts = mesh_cuts(cut_elems if cut_elems is not None else elems)
    plan = []
    total = 0
    for e in elems:
        et = tuple(map(float, e.time_interval))
        ex = tuple(map(float, e.space_interval))
        per = {}
        for r in rule_pair:
            T, X, W = nodes_for(et, ex, t_cuts, x_cuts, r)
            if min_end_distance(np.unique(X), x_cuts) <= 1e-5:
                return 'node_within_1e-5_of_an_element_end'
            per[r] = (T, X, W)
            total += len(T)
        plan.append((e, per))
    if point_budget is not None and total * len(elems) > point_budget:
        return 'above_point_budget'
    out = []
    for n_e, (e, per) in enumerate(plan):
        row = []
        for n_r, r in enumerate(rule_pair):
            T, X, W = per[r]
            vals = call_in_form(residual, T, X, e.gamma_space, (n_e + n_r) % 4)
            row.extend([float(np.dot(W, vals)), float(np.dot(W, np.abs(vals)))])
        out.append(row)
    return out


def call_in_form(residual, T, X, gamma, form):
    """the residual is a function of the points, not of the way a batch is ordered: the batch is handed over
    as generated, reversed, in a fixed pseudo-random order with the first point repeated at the end, or in chunks"""
    n = len(T)
    if form == 0:
        return np.asarray(residual(T, X, gamma), dtype=float)
    if form == 1:
        return np.asarray(residual(T[::-1].copy(), X[::-1].copy(), gamma), dtype=float)[::-1]
    if form == 2:
        perm = np.argsort((np.arange(n) * 2654435761) % 1000003, kind='stable')
        Tp = np.concatenate([T[perm], T[perm][:1]])
        Xp = np.concatenate([X[perm], X[perm][:1]])
        v = np.asarray(residual(Tp, Xp, gamma), dtype=float)[:-1]
        out = np.empty(n)
        out[perm] = v
        return out
    k = max(1, n // 3)
    return np.concatenate([np.asarray(residual(T[i:i + k], X[i:i + k], gamma), dtype=float) for i in range(0, n, k)])


def judge(rows, tol=5e-5, floor=1e-12):
    """-> list of (index, status, ratio) with status in ok / violation / inconclusive"""
    res = []
    for i, (mA, aA, mB, aB) in enumerate(rows):
        bound = tol * aB + floor
        if abs(mA - mB) > 0.1 * bound:
            # the two resolutions disagree: quadrature noise when both means are of the size of the bound, but a mean
            # twenty times the bound at either resolution is not noise (observed noise: 0.25 x bound at most)
            if max(abs(mA), abs(mB)) > 20 * bound:
                res.append((i, 'violation', max(abs(mA), abs(mB)) / bound))
            else:
                res.append((i, 'inconclusive', abs(mB) / bound))
        elif abs(mB) > bound:
            res.append((i, 'violation', abs(mB) / bound))
        else:
            res.append((i, 'ok', abs(mB) / bound))
    return res
