"""Hypothesis strategies producing JSON-serialisable cases: mesh specifications and operation histories."""
import math

from hypothesis import strategies as st

PI = math.pi
CURVE_BREAKS = {
    'UnitSquare': [0.0, 1.0, 2.0, 3.0, 4.0],
    'PiSquare': None,      # filled from the real curve (cumulative float sums), see curve_breaks()
    'LShape': [0.0, 1.0, 2.0, 4.0, 6.0, 7.0, 8.0],
    'Circle': None,
    'UnitInterval': [0.0, 1.0],
}


def curve_breaks(name):
    """break points exactly as the curve object carries them (the precondition of MeshParametrized is
    bitwise equality of the first/last grid point with them)"""
    from vlib.meshreal import curve
    return [float(x) for x in curve(name).pw_start]


SEL_KINDS = ['any', 'any', 'any', 'x0', 'xL', 't0', 'tT', 'corner', 'fine']


def selectors():
    return st.tuples(st.sampled_from(SEL_KINDS), st.integers(0, 10**6)).map(list)


def eta_recipes():
    pos = st.floats(1e-6, 1.0, allow_nan=False, allow_infinity=False)
    return st.one_of(
        st.lists(pos, min_size=1, max_size=12).map(lambda v: {'vals': v}),
        st.lists(st.sampled_from([0.0, 0.25, 1.0]), min_size=2, max_size=7).filter(lambda v: any(x > 0 for x in v))
        .map(lambda v: {'vals': v}),
        st.tuples(st.integers(1, 9), st.integers(0, 40)).map(
            lambda t: {'vals': [1.0] + [1e-9] * t[0], 'off': t[1]}),
        # sparse indicators: exact zeros everywhere except on one or two entries (the marked set carries the whole sum)
        st.tuples(st.integers(1, 12), st.integers(0, 40), st.sampled_from([1.0, 0.5, 3.0])).map(
            lambda t: {'vals': [1.0, t[2]] + [0.0] * t[0] if t[1] % 2 else [1.0] + [0.0] * t[0], 'off': t[1]}),
    )


THETAS = st.one_of(st.sampled_from([0.5, 0.6, 0.9]), st.floats(0.01, 0.99), st.sampled_from([1e-3, 1e-6, 0.999, 0.9999999, 0.25, 0.75]))


# theta = 1 is outside the domain of every property (0 < theta < 1; the driver asserts it): on the unchanged tree the
# closing assertion of both marking routines already fails by rounding for theta = 1 and generic indicators
THETAS_MESH = THETAS


def ops(allow=('t', 'x', 'tx', 'unif', 'unifx', 'iso', 'aniso', 'grade'), time_bias=0.5):
    alts = []
    if 't' in allow:
        alts.append((max(1, int(10 * time_bias)), selectors().map(lambda s: ['t', s])))
    if 'x' in allow:
        alts.append((max(1, int(10 * (1 - time_bias))), selectors().map(lambda s: ['x', s])))
    if 'tx' in allow:
        alts.append((2, selectors().map(lambda s: ['tx', s])))
    if 'unif' in allow:
        alts.append((1, st.just(['unif'])))
    if 'unifx' in allow:
        alts.append((1, st.just(['unifx'])))
    if 'iso' in allow:
        alts.append((1, st.tuples(THETAS_MESH, eta_recipes()).map(lambda t: ['iso', t[0], t[1]])))
    if 'aniso' in allow:
        alts.append((1, st.tuples(THETAS_MESH, eta_recipes()).map(lambda t: ['aniso', t[0], t[1]])))
    if 'grade' in allow:
        alts.append((1, st.sampled_from([1.0, 1.5, 2.0]).map(lambda s: ['grade', s])))
    pool = []
    for w, s in alts:
        pool.extend([s] * w)
    return st.one_of(*pool) if len(set(map(id, pool))) > 1 else pool[0]


def bursts(max_len=7):
    """local grading: bisect a leaf chosen by position class, then keep bisecting one of the two children just created"""
    def build(kind, sel, which, n, mix):
        out = [[kind, sel]]
        for k in range(n):
            kk = kind if not mix or k % 2 == 0 else ('t' if kind == 'x' else 'x')
            out.append([kk, ['last%d' % which, 0]])
        return out
    length = st.integers(2, max_len) if max_len <= 8 else st.one_of(st.integers(2, 7), st.integers(2, 7), st.integers(7, max_len))
    return st.builds(build, st.sampled_from(['x', 'x', 't']), st.tuples(st.sampled_from(['x0', 'xL', 'corner', 'tT', 't0', 'any']),
                     st.integers(0, 10**6)).map(list), st.integers(0, 1), length, st.booleans())


def graded_histories(max_ops=40, **kw):
    """histories mixing single operations with bursts of local refinement"""
    o = ops(**kw)
    piece = st.one_of(o.map(lambda x: [x]), o.map(lambda x: [x]), bursts())
    return st.lists(piece, min_size=min(4, max(1, max_ops // 6)), max_size=max(4, max_ops // 3)).map(lambda ll: [op for l in ll for op in l][:max_ops])


def histories(max_ops=40, deep=False, **kw):
    """deep=True mixes in bursts of up to 26 successive bisections of one spot (element sizes down to 2^-26 of a root):
    only for the pure mesh properties -- the integral operators assert panel widths > 1e-7 / 1e-5"""
    o = ops(**kw)
    if deep and max_ops >= 30 and 't' in kw.get('allow', ('t',)) and 'x' in kw.get('allow', ('x',)):
        deep = st.tuples(st.lists(o, max_size=6), bursts(26), st.lists(o, max_size=6), bursts(26), st.lists(o, max_size=4)).map(
            lambda t: (t[0] + t[1] + t[2] + t[3] + t[4])[:max(max_ops, 40)])
    else:
        deep = st.lists(o, min_size=0, max_size=6)
    return st.one_of(deep,st.lists(o, min_size=0, max_size=6),
                     st.lists(o, min_size=min(8, max_ops), max_size=max_ops),
                     st.lists(o, min_size=max_ops // 2, max_size=max_ops))


# ------------------------------------------------------------------ grids
def increasing(n_min, n_max, lo=0.0, kind='mixed'):
    """strictly increasing float grids with well separated points (ratios of neighbouring steps <= 4)"""
    steps = st.one_of(st.sampled_from([1.0, 0.5, 2.0, 0.25]), st.sampled_from([0.3, 0.8, 1.1, 0.7, 2.5]),
                      st.floats(0.25, 2.0).map(lambda v: round(v, 3)))
    def build(ss):
        out = [lo]
        for s in ss:
            out.append(out[-1] + s)
        return out
    return st.lists(steps, min_size=n_min, max_size=n_max).map(build)


def abstract_specs():
    return st.builds(lambda glue, xs, ts: {'kind': 'abstract', 'glue': glue, 'xs': xs, 'ts': ts},
                     st.booleans(), increasing(1, 4), increasing(1, 3))


def time_grids(max_slabs=4):
    return st.one_of(
        st.just([0.0, 1.0]),
        st.integers(1, max_slabs).map(lambda n: [k / n for k in range(n + 1)]),
        st.integers(1, max_slabs).map(lambda n: [float(k) for k in range(n + 1)]),
        increasing(1, max_slabs),
    )


def space_grid_for(name, enrich):
    """initial space grid containing the break points; `enrich` lists (piece, numerator/12) extra points"""
    br = curve_breaks(name)
    pts = set(br)
    for piece, k in enrich:
        i = piece % (len(br) - 1)
        a, b = br[i], br[i + 1]
        pts.add(a + (b - a) * k / 12.0)
    return sorted(pts)


def param_specs(curves=('UnitSquare', 'PiSquare', 'LShape', 'Circle', 'UnitInterval'), custom=True, max_slabs=4):
    enrich = st.lists(st.tuples(st.integers(0, 5), st.sampled_from([3, 4, 6, 8, 9, 2, 10])), min_size=0, max_size=4)
    def build(name, ts, use_custom, en):
        spec = {'kind': 'param', 'curve': name, 'ts': ts, 'xs': None}
        if custom and use_custom:
            spec['xs'] = space_grid_for(name, en)
        return spec
    return st.builds(build, st.sampled_from(list(curves)), time_grids(max_slabs), st.booleans(), enrich)


def mesh_specs(**kw):
    base = st.one_of(abstract_specs(), param_specs(**kw), param_specs(**kw))
    # the grids may be handed over as lists, tuples or numpy arrays
    return st.builds(lambda s, f: dict(s, grid_form=f), base, st.sampled_from(['list', 'list', 'tuple', 'array']))
