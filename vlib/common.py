"""Shared runner machinery: seeds, shards, recorder, evidence, known findings, replays.

Every check module in vlib/checks exposes

    ID, LEVEL, RULE, ASSUMPTIONS            constants
    shards(tier)                            -> number of worker processes
    run(ctx)                                -> None   (fills ctx.rec)
    replay(case)                            -> list[(bucket, detail)]

A *case* is always a JSON-serialisable value, so every violation can be written
as a replay file and re-run without Hypothesis.
"""
import hashlib
import json
import os
import sys
import time
import traceback

VERIF = os.path.dirname(os.path.dirname(os.path.abspath(__file__)))


def jdump(obj):
    return json.dumps(obj, sort_keys=True, default=_jdefault)


def _jdefault(o):
    try:
        import numpy as np
        if isinstance(o, np.integer):
            return int(o)
        if isinstance(o, np.floating):
            return float(o)
        if isinstance(o, np.ndarray):
            return o.tolist()
    except Exception:
        pass
    from fractions import Fraction
    if isinstance(o, Fraction):
        return str(o)
    if isinstance(o, (set, frozenset)):
        return sorted(o, key=str)
    return repr(o)


def khash(obj):
    return hashlib.md5(jdump(obj).encode()).hexdigest()[:16]


class HarnessError(Exception):
    pass


class Recorder:
    """Collects what a shard did.  Pure bookkeeping, no decisions."""
    def __init__(self):
        self.evaluations = 0
        self.nontrivial = set()        # hashes of distinct non-trivial cases
        self.hist = {}                 # class label -> count
        self.worst = {}                # metric -> (value, case)
        self.samples = []
        self.violations = []           # dicts {bucket, detail, case}
        self.inconclusive = 0
        self.excluded = {}
        self.extra = {}
        self.sets = {}                 # named sets of hashes, merged by union over the shards
        self._sample_cap = 6

    def setadd(self, name, key):
        self.sets.setdefault(name, set()).add(key if isinstance(key, str) else khash(key))

    def case(self, n=1):
        self.evaluations += n

    def nontriv(self, key):
        self.nontrivial.add(key if isinstance(key, str) and len(key) == 16 else khash(key))

    def cls(self, label, n=1):
        self.hist[label] = self.hist.get(label, 0) + n

    def exclude(self, why, n=1):
        self.excluded[why] = self.excluded.get(why, 0) + n

    def metric(self, name, value, case=None):
        value = float(value)
        cur = self.worst.get(name)
        if cur is None or value > cur[0]:
            self.worst[name] = (value, case)

    def sample(self, case):
        if len(self.samples) < self._sample_cap:
            self.samples.append(case)

    def violation(self, bucket, detail, case):
        self.violations.append({'bucket': str(bucket), 'detail': detail, 'case': case})

    def add(self, name, n=1):
        self.extra[name] = self.extra.get(name, 0) + n

    def to_json(self):
        return {
            'evaluations': self.evaluations,
            'nontrivial': sorted(self.nontrivial),
            'hist': self.hist,
            'worst': {k: [v[0], v[1]] for k, v in self.worst.items()},
            'samples': self.samples,
            'violations': self.violations,
            'inconclusive': self.inconclusive,
            'excluded': self.excluded,
            'extra': self.extra,
            'sets': {k: sorted(v) for k, v in self.sets.items()},
        }


class Ctx:
    def __init__(self, prop, tier, seed, k, n):
        self.prop, self.tier, self.seed, self.k, self.n = prop, tier, seed, k, n
        self.rec = Recorder()
        self.t0 = time.time()

    @property
    def quick(self):
        return self.tier == 'quick'

    def hseed(self, salt=0):
        """Hypothesis seed derived from VERIF_SEED, shard number and a salt."""
        h = hashlib.sha256(('%s/%d/%d/%d' % (self.prop, self.seed, self.k, salt)).encode()).digest()
        return int.from_bytes(h[:8], 'big')

    def share(self, total):
        """This shard's part of a total case budget."""
        base = total // self.n
        return base + (1 if self.k < total % self.n else 0)

    def mine(self, items):
        """Deterministic round-robin split of a list over the shards."""
        return [x for i, x in enumerate(items) if i % self.n == self.k]


# ------------------------------------------------------------------ Hypothesis driver
def explore(ctx, strategy, body, n_examples, salt=0, shrink_budget_s=None):
    """Run `body(case, rec)` on n_examples generated cases in collect mode.

    body must never raise for a property violation: it calls rec.violation(bucket, detail, case).
    An exception escaping from body is a harness error (repo exceptions must be
    caught by the body and turned into violations where the property says so).
    Afterwards each new bucket is shrunk with a second Hypothesis run.
    """
    import hypothesis
    from hypothesis import given, settings, HealthCheck, Phase
    rec = ctx.rec
    hs = ctx.hseed(salt)

    @hypothesis.seed(hs)
    @settings(max_examples=n_examples, database=None, deadline=None, derandomize=False,
              report_multiple_bugs=False, suppress_health_check=list(HealthCheck),
              phases=[Phase.generate])
    @given(strategy)
    def collect(case):
        body(case, rec)

    before = len(rec.violations)
    collect()
    new = rec.violations[before:]
    if not new:
        return
    # one representative per bucket: the smallest case seen
    by_bucket = {}
    for v in new:
        cur = by_bucket.get(v['bucket'])
        if cur is None or len(jdump(v['case'])) < len(jdump(cur['case'])):
            by_bucket[v['bucket']] = v
    kf = KnownFindings.load()
    if shrink_budget_s is None:
        shrink_budget_s = 20 if ctx.quick else 120
    shrunk = 0
    for bucket, v in sorted(by_bucket.items()):
        if kf.match(ctx.prop, bucket):
            continue
        shrunk += 1
        if shrunk > (2 if ctx.quick else 6):
            break           # the remaining buckets keep their smallest collected (unshrunk) example
        try:
            small = _shrink(strategy, body, bucket, hs, n_examples, shrink_budget_s)
        except Exception:
            small = None
        if small is not None:
            v2 = dict(v)
            v2['case'] = small['case']
            v2['detail'] = small['detail']
            v2['shrunk'] = True
            rec.violations.append(v2)


def _shrink(strategy, body, bucket, hs, n_examples, budget_s):
    import hypothesis
    from hypothesis import given, settings, HealthCheck, Phase
    t0 = time.time()
    best = {}

    class Hit(Exception):
        pass

    @hypothesis.seed(hs)
    @settings(max_examples=n_examples, database=None, deadline=None, derandomize=False,
              report_multiple_bugs=False, suppress_health_check=list(HealthCheck),
              phases=[Phase.generate, Phase.shrink])
    @given(strategy)
    def t(case):
        if time.time() - t0 > budget_s and best:
            return
        r = Recorder()
        body(case, r)
        for v in r.violations:
            if v['bucket'] == bucket:
                if not best or len(jdump(case)) <= len(jdump(best['case'])):
                    best['case'] = case
                    best['detail'] = v['detail']
                raise Hit()

    try:
        t()
    except Hit:
        pass
    except Exception:
        pass
    return best or None


# ------------------------------------------------------------------ known findings
class KnownFindings:
    def __init__(self, data):
        self.known = data.get('known', [])
        self.fixed = data.get('fixed', [])

    @classmethod
    def load(cls):
        p = os.path.join(VERIF, 'known_findings.json')
        if not os.path.exists(p):
            return cls({})
        with open(p) as f:
            return cls(json.load(f))

    def match(self, prop, bucket):
        for e in self.known:
            if e['property'] == prop and e['bucket'] == bucket:
                return e
        return None


# ------------------------------------------------------------------ replays
def write_replay(prop, v):
    d = os.path.join(VERIF, 'replays', prop)
    os.makedirs(d, exist_ok=True)
    name = khash([v['bucket'], v['case']]) + '.json'
    p = os.path.join(d, name)
    with open(p, 'w') as f:
        json.dump({'property': prop, 'bucket': v['bucket'], 'detail': v['detail'], 'case': v['case']},
                  f, indent=1, sort_keys=True, default=_jdefault)
    return os.path.relpath(p, VERIF)


def run_regress(ctx, mod):
    """replay tier: every saved failing input under regress/<id>/ (shrunk inputs that exposed a seeded change or a
    repaired defect) is re-run through the plain check body, without Hypothesis"""
    d = os.path.join(VERIF, 'regress', ctx.prop)
    if not os.path.isdir(d):
        return
    for name in sorted(os.listdir(d)):
        if not name.endswith('.json'):
            continue
        with open(os.path.join(d, name)) as f:
            data = json.load(f)
        ctx.rec.add('regression_inputs_replayed')
        for bucket, detail in mod.replay(data['case']):
            ctx.rec.violation(bucket, detail, data['case'])


# ------------------------------------------------------------------ shard entry
def shard_main(argv):
    prop, tier, seed, k, n, out = argv[0], argv[1], int(argv[2]), int(argv[3]), int(argv[4]), argv[5]
    import importlib
    mod = importlib.import_module('vlib.checks.' + prop.lower())
    ctx = Ctx(prop, tier, seed, k, n)
    status = 'ok'
    err = None
    try:
        if k == 0:
            run_regress(ctx, mod)
        mod.run(ctx)
    except Exception:
        status = 'harness_error'
        err = traceback.format_exc()
    res = ctx.rec.to_json()
    res['status'] = status
    res['error'] = err
    res['wall_s'] = time.time() - ctx.t0
    with open(out, 'w') as f:
        f.write(jdump(res))
    return 0 if status == 'ok' else 2
