"""C03 -- Galerkin orthogonality: the estimator's residual integrates to zero per element."""
import json
import os
import subprocess
import sys

import numpy as np
from hypothesis import strategies as st

from vlib import repo, gens, pairs, c03lib
from vlib.common import explore, khash, Recorder, VERIF
from vlib.meshreal import Live, apply_op, select
from vlib.checks.c01 import operator

ID = 'C03'
LEVEL = 'exploration'
COMBOS = [('Smooth', 'UnitSquare'), ('Smooth', 'PiSquare'), ('Singular', 'UnitSquare'), ('Singular', 'LShape'),
          ('Dirichlet', 'UnitSquare'), ('Dirichlet', 'PiSquare'), ('Dirichlet', 'LShape'), ('Dirichlet', 'Circle'),
          ('MildSingular', 'UnitSquare'), ('MildSingular', 'PiSquare'), ('MildSingular', 'LShape'), ('MildSingular', 'Circle')]
RULE = ('(i) (problem, domain) in the 12 combinations the driver accepts x straight-panel switch (polygons) x generated '
        'history (aspect guard, space level <= 4, <= 14 elements quick / <= 48 thorough, L-shape long sides pre-split): the '
        'harness performs the driver\'s steps (bilform_matrix, -M0.linform_vector, g-linform, numpy solve, '
        'ErrorEstimator.residual) and integrates the residual over every leaf; (ii) the real example.py is executed '
        '(runpy, sub-process, --estimator-quadrature 1111 --no-h-h2, anisotropic / uniform refinement) with '
        'ErrorEstimator.residual wrapped, loops 0..2. Oracle: |int_E r| <= 5e-5 int_E |r| + 1e-12 with an independent tensor '
        'rule on every sub-rectangle cut out by all mesh lines (t = t0 + h s^2, 6 graded space panels), at two '
        'resolutions (16x84 and 22x120 points); an element is decisive only if the two means agree to a tenth of the bound. '
        'Non-trivial = element with int|r| > 1e-10 on a mesh with >= 2 time levels and a hanging node (i) or any '
        'element of the driver\'s own meshes (ii); distinct by (combination, mesh, element).')
ASSUMPTIONS = ['quadrature of vlib/c03lib.py; meshes on which an integration node would fall within 1e-5 of an element '
               'end point (documented precondition of evaluate) or that exceed the point budget are excluded and counted',
               'numpy.linalg.solve']


def shards(tier):
    return 16


def cases(max_ops, combo=None):
    return st.fixed_dictionaries({
        'kind': st.just('harness'), 'combo': st.integers(0, len(COMBOS) - 1) if combo is None else st.just(combo),
        'exact': st.booleans(),
        'ts': st.sampled_from([[0.0, 1.0], [0.0, 0.5, 1.0], [0.0, 0.25]]),
        'ops': gens.graded_histories(max_ops=max_ops, allow=('t', 'x', 'tx')),
    })


def harness_body(case, rec, cap, budget):
    rec.case()
    from vlib.meshdrive import exc_site
    problem, dom = COMBOS[case['combo'] % len(COMBOS)]
    spec = {'kind': 'param', 'curve': dom, 'ts': case['ts'], 'xs': [float(i) for i in range(9)] if dom == 'LShape' else None}
    cj = dict(case)
    cj['_combo'] = [problem, dom]
    B = lambda c: 'C03/%s_%s/%s' % (problem, dom, c)
    try:
        live = Live(spec, min_hx=1e-4)
        for op in case['ops']:
            if len(live.mesh.leaf_elements) >= cap:
                break
            e = select(live, op[1])
            hx = e.space_interval[1] - e.space_interval[0]
            ht = e.time_interval[1] - e.time_interval[0]
            if op[0] == 't' and hx * hx / (ht / 2) > 32:
                continue
            if op[0] in ('x', 'tx') and live.skey(e).lx >= 4:
                continue
            apply_op(live, op, cap=cap)
        for _ in range(20):
            bad = [e for e in live.mesh.leaf_elements if not pairs.aspect_ok(e)]
            if not bad:
                break
            with repo.quiet():
                live.mesh.refine_space(bad[0])
        live.reseed_model()
    except Exception as ex:
        if exc_site(ex) == 'harness':
            raise
        rec.add('mesh_construction_failed')
        return
    elems = live.leaves()
    if len(elems) > cap * 1.5:
        rec.exclude('mesh_too_large')
        return
    exact = case['exact'] and dom != 'Circle'
    try:
        sys.path.insert(0, repo.REPO) if repo.REPO not in sys.path else None
        from problems import problem_helper
        from src.error_estimator import ErrorEstimator
        from src.initial_potential import InitialOperator
        from src import initial_mesh as im
        with repo.quiet():
            data = problem_helper(problem, dom)
            SL = operator(live, exact)
            mat = SL.bilform_matrix(elems, elems, use_mp=False)
            rhs = np.zeros(len(elems))
            M0u0 = None
            if 'u0' in data:
                M0 = InitialOperator(bdr_mesh=live.mesh, u0=data['u0'], initial_mesh=getattr(im, dom + 'BoundaryRefined'))
                rhs = -M0.linform_vector(elems=elems, use_mp=False)
                M0u0 = data['M0u0']
            g = None
            if 'g' in data:
                g = data['g']
                rhs = rhs + data['g-linform'](elems)
            Phi = np.linalg.solve(mat, rhs)
            EE = ErrorEstimator(live.mesh, N_poly=(1, 1, 1, 1))
            residual = EE.residual(elems, Phi, SL, M0u0, g, SL_exact_eval=exact)
            rows = c03lib.element_report(residual, elems, point_budget=budget)
    except Exception as ex:
        if exc_site(ex) == 'harness':
            raise
        rec.violation(B('exception/%s/%s' % (exc_site(ex), type(ex).__name__)), {'error': repr(ex)}, cj)
        return
    if isinstance(rows, str):
        rec.exclude(rows)
        return
    lv_t = len({e.levels[0] for e in elems})
    hanging = any(len(ed.neighbour_elements()) == 2 for e in elems for ed in e.edges)
    rec.cls('%s_%s' % (problem, dom))
    rec.cls('pw_exact' if exact else 'quadrature')
    rec.metric('elements', len(elems))
    with repo.quiet():
        md5 = live.mesh.md5()
    verdicts = c03lib.judge(rows)
    redo = [i for i, status, _ in verdicts if status == 'inconclusive']
    if redo:
        # the two resolutions disagree on these elements: a second opinion with 40 / 45 time nodes per piece
        try:
            with repo.quiet():
                rows2 = c03lib.element_report(residual, [elems[i] for i in redo], rule_pair=('C', 'D'), cut_elems=elems)
        except Exception as ex:
            if exc_site(ex) == 'harness':
                raise
            rows2 = None
        if rows2 is not None and not isinstance(rows2, str):
            second = {redo[k]: v for k, v in enumerate(c03lib.judge(rows2))}
            for k, i in enumerate(redo):
                rows[i] = rows2[k]
            verdicts = [(i, second[i][1], second[i][2]) if i in second else (i, st_, ra) for i, st_, ra in verdicts]
            rec.add('elements_decided_at_higher_resolution', len(redo))
    for i, status, ratio in verdicts:
        rec.case()
        if status == 'inconclusive':
            rec.inconclusive += 1
            continue
        rec.metric('mean_over_bound', ratio, {'combo': [problem, dom], 'elem': repr(elems[i])})
        if rows[i][3] > 1e-10 and lv_t >= 2 and hanging:
            rec.nontriv([problem, dom, exact, md5, i])
        if status == 'violation':
            rec.violation(B('mean_not_zero/%s' % ('exact' if exact else 'quad')),
                          {'elem': repr(elems[i]), 'int_r': rows[i][2], 'int_abs_r': rows[i][3], 'ratio_to_bound': ratio,
                           'elements': len(elems)}, cj)
            return
    if len(rec.samples) < 3:
        rec.sample({'combo': [problem, dom], 'exact': exact, 'elements': len(elems), 'n_ops': len(case['ops'])})


def example_body(case, rec, budget):
    """driver (ii): the real example.py in a sub-process"""
    rec.case()
    problem, dom = COMBOS[case['combo'] % len(COMBOS)]
    work = os.path.join(os.environ.get('VERIF_WORK') or os.path.join(VERIF, '.work', 'c03.%d' % os.getpid()), 'ex%d' % case['combo'])
    os.makedirs(work, exist_ok=True)
    argv = ['--problem', problem, '--domain', dom, '--refinement', case['refinement'], '--estimator-quadrature', '1111', '--no-h-h2']
    if case['exact'] and dom != 'Circle':
        argv.append('--single-layer-exact')
    cfg = {'cwd': work, 'argv': argv, 'loops': case['loops'], 'point_budget': budget, 'workers': 2}
    cfg_path = os.path.join(work, 'cfg.json')
    out_path = os.path.join(work, 'out.json')
    json.dump(cfg, open(cfg_path, 'w'))
    env = dict(os.environ)
    env['PYTHONPATH'] = VERIF
    p = subprocess.run([sys.executable, '-m', 'vlib.c03_example', cfg_path, out_path], cwd=VERIF, env=env,
                       stdout=subprocess.PIPE, stderr=subprocess.STDOUT, timeout=3000)
    cj = dict(case)
    cj['_argv'] = argv
    B = lambda c: 'C03/example/%s_%s/%s' % (problem, dom, c)
    if not os.path.exists(out_path):
        tail = p.stdout.decode(errors='replace')[-1500:]
        if 'vlib/' in tail and 'src/' not in tail and 'example.py' not in tail:
            raise RuntimeError('example driver failed in the harness:\n' + tail)
        rec.violation(B('driver_failed'), {'output_tail': tail}, cj)
        return
    results = json.load(open(out_path))
    if not results:
        tail = p.stdout.decode(errors='replace')[-1500:]
        rec.violation(B('driver_failed_before_first_residual'), {'output_tail': tail}, cj)
        return
    rec.cls('example_%s_%s_%s' % (problem, dom, case['refinement']))
    for loop, r in enumerate(results):
        rows = r['rows']
        if isinstance(rows, str):
            rec.exclude('example_' + rows)
            continue
        rec.cls('example_loops')
        for i, status, ratio in c03lib.judge(rows):
            rec.case()
            if status == 'inconclusive':
                rec.inconclusive += 1
                continue
            rec.metric('mean_over_bound_example', ratio, {'combo': [problem, dom], 'loop': loop, 'elem': r['elems'][i]})
            rec.nontriv(['example', argv, loop, i])
            if status == 'violation':
                rec.violation(B('mean_not_zero'), {'loop': loop, 'elem': r['elems'][i], 'int_r': rows[i][2],
                                                   'int_abs_r': rows[i][3], 'ratio_to_bound': ratio, 'elements': r['n']}, cj)
                return
    if len(rec.samples) < 3:
        rec.sample({'argv': argv, 'loops': [r['n'] for r in results]})


def example_jobs(quick, seed):
    jobs = []
    for ci in range(len(COMBOS)):
        for refinement, loops in (('anisotropic', 3), ('uniform', 2)):
            for exact in (False, True):
                if exact and COMBOS[ci][1] == 'Circle':
                    continue
                jobs.append({'kind': 'example', 'combo': ci, 'refinement': refinement, 'loops': loops, 'exact': exact})
    if quick:
        # a rotating third of the configurations, uniform runs limited to the first loop pair
        jobs = [j for k, j in enumerate(jobs) if (k + seed) % 3 == 0]
    return jobs


def nested_family():
    """deterministic small meshes with strictly nested space intervals in separated time slabs (two levels of local
    space refinement behind an intermediate slab), towards x = 0, a corner and the seam; both switches"""
    out = []
    for ci, (problem, dom) in enumerate(COMBOS):
        for sel, which in (('x0', 1), ('corner', 0), ('xL', 0)):
            for exact in (True, False):
                if exact and dom == 'Circle':
                    continue
                ops = [['t', [sel, 0]], ['t', ['last0', 0]], ['x', ['last0', 0]], ['x', ['last%d' % which, 0]]]
                out.append({'kind': 'harness', 'combo': ci, 'exact': exact, 'ts': [0.0, 1.0], 'ops': ops})
    return out


def elongated_family():
    """deterministic uniform meshes of three thin time slabs whose elements have aspect h_x^2/h_t of 20 ... 25 (the
    upper part of the admissible range), every combination, quadrature path (and closed form on polygons)"""
    TS = {'Circle': [0.0, 0.125, 0.25, 0.375], 'UnitSquare': [0.0, 0.04, 0.08, 0.12], 'LShape': [0.0, 0.04, 0.08, 0.12],
          'PiSquare': [0.0, 0.4, 0.8, 1.2]}
    out = []
    for ci, (problem, dom) in enumerate(COMBOS):
        for exact in (False, True):
            if exact and dom == 'Circle':
                continue
            out.append({'kind': 'harness', 'combo': ci, 'exact': exact, 'ts': TS[dom], 'ops': []})
        if dom == 'Circle' and problem in ('Dirichlet', 'MildSingular'):
            # eight such slabs: in the later ones the residual is small compared with V Phi
            out.append({'kind': 'harness', 'combo': ci, 'exact': False, 'ts': [k / 8 for k in range(9)], 'ops': []})
    return out


def body(case, rec, cap=14, budget=4e6):
    if case.get('kind') == 'example':
        example_body(case, rec, budget * 4)
    else:
        harness_body(case, rec, cap, budget)


def run(ctx):
    cap = 12 if ctx.quick else 40
    budget = 3e6 if ctx.quick else 6e7
    for case in ctx.mine(example_jobs(ctx.quick, ctx.seed)):
        example_body(case, ctx.rec, budget * 4)
    fam = nested_family()
    if ctx.quick:
        fam = [c for k, c in enumerate(fam) if (k + ctx.seed) % 4 == 0 or (c['exact'] and k % 2 == 0)]
    for case in ctx.mine(fam):
        harness_body(case, ctx.rec, 40, budget * 4)
    el = elongated_family()
    if ctx.quick:
        el = [c for k, c in enumerate(el) if (not c['exact'] or (k + ctx.seed) % 2 == 0) and
              not (len(c['ts']) == 9 and COMBOS[c['combo']][0] != 'Dirichlet')]
    for case in ctx.mine(el):
        harness_body(case, ctx.rec, 40, budget * 4)
    n = ctx.share(32 if ctx.quick else 96)
    for j in range(n):
        # one generated history per (shard, j); the combination rotates so that every run covers all twelve
        combo = (ctx.k + 16 * j + ctx.seed) % len(COMBOS)
        strat = cases(10 if ctx.quick else 24, combo).filter(lambda c: len(c['ops']) >= 3)
        explore(ctx, strat, lambda c, r: harness_body(c, r, cap, budget), 1, salt=j)


def replay(case):
    rec = Recorder()
    body(case, rec, 40, 6e7)
    return [(v['bucket'], v['detail']) for v in rec.violations]
