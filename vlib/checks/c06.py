"""C06 -- Doerfler marking refines a minimal bulk set, in exactly the marked directions."""
import itertools
from fractions import Fraction

import numpy as np
from hypothesis import strategies as st

from vlib import repo, gens, meshdrive
from vlib.common import explore, khash, Recorder
from vlib.meshreal import Live, apply_op

ID = 'C06'
LEVEL = 'exploration'
RULE = ('(a) complete enumeration of all non-empty marked subsets (isotropic: leaves, n <= 6; anisotropic: '
        '(leaf, direction) entries, n <= 4) on every state of the bounded BFS (depth <= 2) over six small meshes, '
        'realised by indicators 1 on the subset / 1e-9 elsewhere with theta placed so that exactly the subset is the '
        'bulk, plus small-integer indicator vectors whose partial sums hit theta^2 x total exactly; (b) Hypothesis cases: mesh spec x bisection history x 1-3 successive marking steps (iso/aniso, theta '
        'in (0,1), indicator arrays in C order, Fortran order, as non-contiguous views and (isotropic) as lists, plain bisections interleaved between the marking steps, indicator recipes: random, ties from a 3-value set, zeros, all equal, one dominant entry, '
        'threshold-exact vectors). Oracle: exact-rational bulk criterion (all admissible shortest prefixes, rounding '
        'band (n+4) ulp) and, for some admissible set, equality of the resulting leaf set with the reference-model '
        'closure (time requests, then space requests on the time halves). Non-trivial = marked set neither empty nor '
        'everything and the closure bisected an unmarked leaf, or a tie at the cut; distinct by (case, step).')
ASSUMPTIONS = ['reference model closure (vlib/meshmodel.py); exact rational arithmetic on the double inputs',
               'with ties at the cut any admissible prefix is accepted (the property fixes the set only up to ties)']


def shards(tier):
    return 16


# ------------------------------------------------------------------ indicators
def indicators(recipe, n, theta, two):
    m = 2 * n if two else n
    r = recipe['r']
    if r == 'cyc':
        v = recipe['vals']
        eta = [float(v[(k + recipe.get('off', 0)) % len(v)]) for k in range(m)]
    elif r == 'subset':
        mask = recipe['mask']
        eta = [1.0 if (mask >> k) & 1 else 1e-9 for k in range(m)]
        s = sum(1 for x in eta if x == 1.0)
        theta = float(np.sqrt((s - 0.5) / sum(eta)))
    elif r == 'equal':
        eta = [float(recipe.get('val', 1.0))] * m
    elif r == 'exact':
        # small integers whose descending partial sums hit theta^2 * total exactly (theta = 0.5): the criterion is
        # decided without any rounding, so a prefix that is one entry too long or too short is visible
        eta = [1.0] * m
        c = 1 + (4 - (m % 4)) % 4          # total = c + m - 1 is a multiple of 4
        eta[recipe.get('pos', 0) % m] = float(c)
        theta = 0.5
    elif r == 'dominant':
        v = recipe['vals']
        eta = [1e-3 * float(v[k % len(v)]) for k in range(m)]
        eta[recipe['pos'] % m] = 1.0
    elif r == 'allbut':
        # everything marked except one entry: indicators in [1, 2] apart from one negligible one, theta close to 1
        eta = [1.0 + ((k * 37) % 64) / 64.0 for k in range(m)]
        eta[recipe['pos'] % m] = 1e-9
    elif r == 'thresh':
        eta = [0.0] * m
        s = float(recipe.get('scale', 1.0))
        a, b = theta**2 * s, (1 - theta**2) * s
        eta[recipe['pos'] % m] = a
        if m > 1:
            q = recipe['pos2'] % m
            if q == recipe['pos'] % m:
                q = (q + 1) % m
            eta[q] = b
    else:
        raise ValueError(r)
    if not any(x > 0 for x in eta):
        eta[0] = 1.0
    arr = np.array(eta, dtype=float)
    # overall magnitude of the (squared) indicators: the marked set does not depend on it; a power of two keeps
    # every exactly decidable case exactly decidable (late in an adaptive run the sum is 1e-8 and smaller)
    arr = arr * 2.0 ** int(recipe.get('mag', 0))
    return (arr.reshape(2, n).T.copy() if two else arr), theta


def recipes():
    pos = st.floats(1e-6, 1.0, allow_nan=False, allow_infinity=False)
    return st.one_of(
        st.builds(lambda v, o: {'r': 'cyc', 'vals': v, 'off': o}, st.lists(pos, min_size=1, max_size=16), st.integers(0, 15)),
        st.builds(lambda v, o: {'r': 'cyc', 'vals': v, 'off': o},
                  st.lists(st.sampled_from([0.0, 0.25, 1.0]), min_size=2, max_size=9), st.integers(0, 8)),
        st.builds(lambda v: {'r': 'equal', 'val': v}, st.sampled_from([1.0, 0.1, 3.0, 1e-7])),
        st.builds(lambda p: {'r': 'exact', 'pos': p}, st.integers(0, 500)),
        st.builds(lambda n, o, w: {'r': 'cyc', 'vals': ([1.0, w] if o % 2 else [1.0]) + [0.0] * n, 'off': o},
                  st.integers(1, 14), st.integers(0, 40), st.sampled_from([1.0, 0.5, 3.0])),
        st.builds(lambda v, p: {'r': 'dominant', 'vals': v, 'pos': p}, st.lists(pos, min_size=1, max_size=5), st.integers(0, 500)),
        st.builds(lambda p, q, s: {'r': 'thresh', 'pos': p, 'pos2': q, 'scale': s}, st.integers(0, 500), st.integers(0, 500),
                  st.sampled_from([1.0, 0.7, 3.0, 1e-3])),
    )


def cases(max_ops):
    lay = st.sampled_from(['C', 'C', 'F', 'view', 'list'])
    mag = st.sampled_from([0, 0, 0, -17, -27, -34, -60, 10])
    mark = st.tuples(st.sampled_from(['iso', 'aniso']), gens.THETAS, recipes(), lay, mag).map(
        lambda t: [t[0], t[1], dict(t[2], layout=t[3], mag=t[4])])
    # marking steps interleaved with other refinements: an entry ['op', <operation>] is applied unchecked in between
    plain = gens.ops(allow=('t', 'x', 'tx')).map(lambda o: ['op', o, None])
    step = st.one_of(mark, mark, plain)
    return st.builds(lambda spec, ops, marks, last: {'kind': 'history', 'mesh': spec, 'ops': ops, 'marks': marks + [last]},
                     gens.mesh_specs(), gens.histories(max_ops=max_ops, allow=('t', 'x', 'tx', 'unif')),
                     st.lists(step, min_size=0, max_size=4), mark)


# ------------------------------------------------------------------ oracle
def admissible_sets(entries, theta, inside):
    """entries: list of (value float, id); returns (list of candidate sets (as frozensets of ids), tie_at_cut)
    `inside(id)` filters the tied entries to those that the real outcome actually bisected (pure optimisation of
    the enumeration: a tied entry that was not bisected cannot have been in the marked set)."""
    n = len(entries)
    vals = [Fraction(v) for v, _ in entries]
    T = sum(vals)
    thr = Fraction(theta)**2 * T
    order = sorted(range(n), key=lambda k: -vals[k])
    S = [Fraction(0)]
    for k in order:
        S.append(S[-1] + vals[k])
    # The band absorbs the rounding of a floating-point implementation.  When every quantity involved is exactly
    # representable (small integers, powers of two, theta = 0.5, ...), every floating-point evaluation is exact
    # and the criterion is decided without a band.
    exact = Fraction(theta)**2 == Fraction(theta * theta) and Fraction(float(thr)) == thr and \
        all(Fraction(float(x)) == x for x in S)
    delta = Fraction(0) if exact else Fraction(n + 4, 2**52)
    ks = [k for k in range(1, n + 1) if S[k] >= thr * (1 - delta) and S[k - 1] < thr * (1 + delta)]
    # the loop of any implementation stops at the first k reaching the threshold as it evaluates it
    out = []
    tie = False
    for k in ks:
        v = vals[order[k - 1]]
        above = [entries[i][1] for i in range(n) if vals[i] > v]
        tied = [entries[i][1] for i in range(n) if vals[i] == v]
        m = k - len(above)
        if m < len(tied):
            tie = True
        cand = [t for t in tied if inside(t)]
        if len(cand) < m:
            continue
        combos = itertools.islice(itertools.combinations(cand, m), 3001)
        for c in combos:
            out.append(frozenset(above) | frozenset(c))
    return out, tie, ks


def model_outcome(prev, kind, M, boxes):
    """prev: model before the call; M: set of ids -- leaf index (iso) or (leaf index, axis) (aniso)"""
    m = prev.copy()
    if kind == 'iso':
        mt = sorted(M)
        ms = sorted(M)
    else:
        mt = sorted(i for i, ax in M if ax == 0)
        ms = sorted(i for i, ax in M if ax == 1)
    forced = 0
    for i in mt:
        if boxes[i].key in m.leaves:
            _, f = m.refine(boxes[i].key, 0)
            forced += len(f)
    for i in ms:
        b = boxes[i]
        if b.key in m.leaves:
            targets = [b.key]
        else:
            tm = (b.t0 + b.t1) >> 1
            targets = [(b.t0, tm, b.x0, b.x1), (tm, b.t1, b.x0, b.x1)]
        for k in targets:
            if k in m.leaves:
                _, f = m.refine(k, 1)
                forced += len(f)
            # else: already bisected in space by the closure of an earlier request (contained in the result)
    return m, forced


def mark_step(live, kind, theta, recipe, rec, case, step):
    mesh = live.mesh
    leaves = list(mesh.leaf_elements)
    n = len(leaves)
    boxes = [live.skey(e) for e in leaves]
    two = kind == 'aniso'
    eta, theta = indicators(recipe, n, theta, two)
    layout = recipe.get('layout', 'C')
    if layout == 'F':
        eta = np.asfortranarray(eta)
    elif layout == 'view':
        big = np.zeros((2 * n, 4)) if two else np.zeros(3 * n)
        if two:
            big[::2, 1:3] = eta
            eta = big[::2, 1:3]
        else:
            big[1::3] = eta
            eta = big[1::3]
    elif layout == 'list' and not two:
        eta = [float(v) for v in eta]
    prev = live.model.copy()
    try:
        with repo.quiet():
            if two:
                mesh.dorfler_refine_anisotropic(eta, theta)
            else:
                mesh.dorfler_refine_isotropic(eta, theta)
    except Exception as ex:
        site = meshdrive.exc_site(ex)
        if site == 'harness':
            raise
        rec.violation('C06/%s/exception/%s/%s' % (kind, site, type(ex).__name__),
                      {'error': repr(ex), 'theta': theta, 'eta': np.asarray(eta).tolist(), 'step': step}, case)
        return False
    try:
        live.reseed_model()
    except Exception as ex:
        rec.violation('C06/%s/outcome_not_a_mesh' % kind, {'error': repr(ex), 'step': step}, case)
        return False
    real = set(live.model.leaves.keys())
    real_boxes = list(live.model.leaves.values())

    def bisected(i, ax):
        b = boxes[i]
        if b.key in live.model.leaves:
            return False
        inside = [c for c in real_boxes if b.t0 <= c.t0 and c.t1 <= b.t1 and b.x0 <= c.x0 and c.x1 <= b.x1]
        return bool(inside) and all((c.lt if ax == 0 else c.lx) > (b.lt if ax == 0 else b.lx) for c in inside)

    if two:
        entries = [(float(eta[i, 0]), (i, 0)) for i in range(n)] + [(float(eta[i, 1]), (i, 1)) for i in range(n)]
        inside = lambda ident: bisected(ident[0], ident[1])
    else:
        entries = [(float(eta[i]), i) for i in range(n)]
        inside = lambda i: bisected(i, 0) and bisected(i, 1)
    cands, tie, ks = admissible_sets(entries, theta, inside)
    if len(cands) > 3000:
        rec.inconclusive += 1
        return True
    ok = False
    forced = 0
    first = None
    for M in cands:
        m, forced = model_outcome(prev, kind, M, boxes)
        if first is None:
            first = (M, m)
        if set(m.leaves.keys()) == real:
            ok = True
            chosen = M
            break
    rec.cls(kind)
    rec.cls('recipe_' + recipe['r'])
    if tie:
        rec.cls('tie_at_cut')
    if not ok:
        detail = {'theta': theta, 'eta': np.asarray(eta).tolist(), 'step': step, 'admissible_prefix_lengths': ks,
                  'n_candidates': len(cands), 'leaves_before': [b.pretty() for b in boxes][:12]}
        if first is not None:
            M, m = first
            detail['one_admissible_set'] = sorted(map(str, M))
            mk = set(m.leaves.keys())
            detail['model_only'] = [m.leaves[k].pretty() for k in sorted(mk - real)][:6]
            detail['code_only'] = [live.model.leaves[k].pretty() for k in sorted(real - mk)][:6]
        else:
            detail['note'] = 'no admissible bulk set is consistent with the elements that were bisected'
        rec.violation('C06/%s/outcome' % kind, detail, case)
        return False
    total = 2 * n if two else n
    if (0 < len(chosen) < total and forced > 0) or tie:
        rec.nontriv(khash([case, step]))
    if forced:
        rec.cls('closure_forced_unmarked')
    return True


def body(case, rec, cap=400):
    rec.case()
    try:
        if case['kind'] == 'bfs':
            live, _ = meshdrive.replay_seq(case['mesh'], case['seq'])
        else:
            live = Live(case['mesh'])
            for op in case['ops']:
                info = apply_op(live, op, cap=cap)
    except Exception as ex:
        if meshdrive.exc_site(ex) == 'harness':
            raise
        rec.add('history_failed_before_marking')
        return
    for step, (kind, theta, recipe) in enumerate(case['marks']):
        if len(live.mesh.leaf_elements) > cap:
            rec.exclude('size_cap')
            break
        if kind == 'op':
            try:
                apply_op(live, theta, cap=cap)
                rec.cls('interleaved_refinement')
            except Exception as ex:
                if meshdrive.exc_site(ex) == 'harness':
                    raise
                rec.add('history_failed_between_markings')
                break
            continue
        if not mark_step(live, kind, float(theta), recipe, rec, case, step):
            break
    if len(rec.samples) < 6 and case['kind'] != 'bfs':
        rec.sample(case)


def small_states(depth):
    out = []
    for mno, spec in enumerate(meshdrive.BFS_MESHES):
        seen = set()
        frontier = [[]]
        for d in range(depth + 1):
            nxt = []
            for seq in frontier:
                live, _ = meshdrive.replay_seq(spec, seq)
                fp = meshdrive.fingerprint(live)
                if fp in seen:
                    continue
                seen.add(fp)
                n = len(live.mesh.leaf_elements)
                out.append((mno, seq, n))
                if d < depth:
                    for i in range(n):
                        for ax in (0, 1):
                            nxt.append(seq + [[i, ax]])
            frontier = nxt
    return out


def run(ctx):
    rec = ctx.rec
    states = small_states(2)
    jobs = []
    for mno, seq, n in states:
        if n <= 6:
            jobs.append((mno, seq, 'iso', n))
        if n <= 4:
            jobs.append((mno, seq, 'aniso', 2 * n))
    for mno, seq, kind, m in ctx.mine(jobs):
        for mask in range(1, 2**m):
            case = {'kind': 'bfs', 'mesh': meshdrive.BFS_MESHES[mno], 'seq': seq,
                    'marks': [[kind, 0.5, {'r': 'subset', 'mask': mask, 'layout': ['C', 'F', 'view'][mask % 3],
                                            'mag': [0, 0, -30, -40][(mask // 3) % 4]}]]}
            body(case, rec)
            rec.add('enumerated_subset_cases')
        for pos in range(m):
            body({'kind': 'bfs', 'mesh': meshdrive.BFS_MESHES[mno], 'seq': seq,
                  'marks': [[kind, 0.5, {'r': 'exact', 'pos': pos, 'mag': [0, -34][pos % 2]}]]}, rec)
            rec.add('exact_threshold_cases')
        body({'kind': 'bfs', 'mesh': meshdrive.BFS_MESHES[mno], 'seq': seq, 'marks': [[kind, 0.5, {'r': 'equal', 'val': 1.0}]]}, rec)
    # large meshes (262 and 520 leaves): all leaves but one marked; several hundred space bisections in one call
    big = []
    for kind in ('iso', 'aniso'):
        for n_unif, theta, pos in ((3, 0.999, 5), (3, 0.999, 200), (3, 0.95, 77)):
            big.append({'kind': 'history', 'mesh': {'kind': 'param', 'curve': 'UnitSquare', 'ts': [0.0, 1.0], 'xs': None},
                        'ops': [['unif']] * n_unif + [['x', ['any', 5]], ['t', ['any', 17]]],
                        'marks': [[kind, theta, {'r': 'allbut', 'pos': pos}]]})
        big.append({'kind': 'history', 'mesh': {'kind': 'param', 'curve': 'UnitSquare', 'ts': [0.0, 1.0], 'xs': None},
                    'ops': [['unif']] * 3 + [['unifx']] + [['x', ['any', 5]]],
                    'marks': [[kind, 0.95, {'r': 'cyc', 'vals': [1.0, 0.3, 0.7, 0.2, 0.9, 0.55, 0.8], 'off': 0}]]})
    for case in ctx.mine(big):
        body(case, rec)
    n = ctx.share(2400 if ctx.quick else 24000)
    explore(ctx, cases(20 if ctx.quick else 50), body, n)


def replay(case):
    rec = Recorder()
    body(case, rec)
    return [(v['bucket'], v['detail']) for v in rec.violations]
