"""C15 -- derived quadrature schemes preserve measure and polynomial exactness."""
import itertools
import math

import numpy as np
import mpmath as mp
from hypothesis import strategies as st

from vlib import repo
from vlib.common import explore, khash, Recorder

ID = 'C15'
LEVEL = 'exploration'
RULE = ('base rule (every Gauss scheme of odd degree <= 23, every key of the log, log-log and sqrt tables with '
        'polynomial degree >= 0) x constructor (1-D affine map, 1-D mirror, ProductScheme2D/3D, DuffyScheme2D sym/'
        'non-sym, DuffySchemeIdentical3D sym/non-sym, DuffySchemeTouch3D) x generated mirror sequence (every call '
        'order, so caches are exercised) x target box with sides log-uniform in [1e-4, 1e3] and offsets in '
        '[-1e3, 1e3] x ALL monomials (in box-local coordinates) of total degree <= d (tensor), d-1 (2-D Duffy), d-2 '
        '(3-D Duffy) -- exhaustive per case, the degree-0 monomial being the measure clause; mirror involution and '
        'non-aliasing; symmetric vs non-symmetric Duffy on symmetric integrands; log-singular model integrands with '
        'closed forms (error non-increasing in the order down to a 1e-10 floor). Non-trivial = monomial of positive '
        'degree on a non-unit box; distinct by (base, constructor, mirrors, box, monomial).')
ASSUMPTIONS = ['tolerance 1e-12 relative plus the unavoidable node rounding 4(deg+1)*eps*(|a|+|b|)/h of a box far from '
               'the origin (the nodes a + h*p are rounded to ulp(a))',
               'closed forms of the model integrals evaluated with mpmath']

EPS = 2.220446049250313e-16


def shards(tier):
    return 16


# ------------------------------------------------------------------ base rules
def base_rules():
    from src import quadrature_rules as qr
    out = []
    for n in range(1, 24, 2):
        out.append(['gauss', n])
    from vlib.checks.c05 import parse_tables
    import os
    tables, _ = parse_tables(os.path.join(repo.REPO, 'src', 'quadrature_rules.py'))
    for fn, tag in (('log_quadrature_rule', 'log'), ('log_log_quadrature_rule', 'loglog'), ('sqrt_quadrature_rule', 'sqrt')):
        for key, _, _, _ in tables[fn]:
            if key[0] >= 0:
                out.append([tag, key[0], key[1]])
    return out


def make_base(b):
    from src import quadrature as q
    with repo.quiet():
        if b[0] == 'gauss':
            return q.gauss_quadrature_scheme(b[1]), b[1]
        if b[0] == 'log':
            return q.log_quadrature_scheme(b[1], b[2]), b[1]
        if b[0] == 'loglog':
            return q.log_log_quadrature_scheme(b[1], b[2]), b[1]
        if b[0] == 'sqrt':
            return q.sqrt_quadrature_scheme(b[1], b[2]), b[1]
    raise ValueError(b)


CTORS = ['affine1d', 'mirror1d', 'prod2d', 'duffy2d_sym', 'duffy2d_nonsym', 'prod3d', 'duffy3d_id_sym',
         'duffy3d_id_nonsym', 'duffy3d_touch']
DIM = {'affine1d': 1, 'mirror1d': 1, 'prod2d': 2, 'duffy2d_sym': 2, 'duffy2d_nonsym': 2, 'prod3d': 3,
       'duffy3d_id_sym': 3, 'duffy3d_id_nonsym': 3, 'duffy3d_touch': 3}
LOSS = {'affine1d': 0, 'mirror1d': 0, 'prod2d': 0, 'duffy2d_sym': 1, 'duffy2d_nonsym': 1, 'prod3d': 0,
        'duffy3d_id_sym': 2, 'duffy3d_id_nonsym': 2, 'duffy3d_touch': 2}


def build(ctor, base):
    from src import quadrature as q
    if ctor in ('affine1d', 'mirror1d'):
        return base
    if ctor == 'prod2d':
        return q.ProductScheme2D(base)
    if ctor == 'duffy2d_sym':
        return q.DuffyScheme2D(q.ProductScheme2D(base), symmetric=True)
    if ctor == 'duffy2d_nonsym':
        return q.DuffyScheme2D(q.ProductScheme2D(base), symmetric=False)
    if ctor == 'prod3d':
        return q.ProductScheme3D(base)
    if ctor == 'duffy3d_id_sym':
        return q.DuffySchemeIdentical3D(q.ProductScheme3D(base), symmetric_xy=True)
    if ctor == 'duffy3d_id_nonsym':
        return q.DuffySchemeIdentical3D(q.ProductScheme3D(base), symmetric_xy=False)
    if ctor == 'duffy3d_touch':
        return q.DuffySchemeTouch3D(q.ProductScheme3D(base))
    raise ValueError(ctor)


# ------------------------------------------------------------------ cases
def boxes():
    side = st.floats(math.log(1e-4), math.log(1e3)).map(lambda v: float(math.exp(v)))
    side = st.one_of(side, st.sampled_from([1.0, 1e-4, 1e-3, 5e-3, 1e3, 0.5, 2.0]))
    off = st.one_of(st.floats(-1e3, 1e3), st.sampled_from([0.0, 1.0, -1.0, 11.0, 200.0, -950.0, 999.0]))
    return st.lists(st.tuples(off, side).map(lambda t: [t[0], t[0] + t[1]]), min_size=3, max_size=3)


def cases(n_base):
    return st.builds(lambda b, c, m, bx: {'base': b, 'ctor': c, 'mirrors': m, 'box': bx},
                     st.integers(0, n_base - 1), st.sampled_from(CTORS),
                     st.text(alphabet='xyz', min_size=0, max_size=4), boxes())


def body_factory(bases, max3d):
    def body(case, rec):
        check_case(case, rec, bases, max3d)
    return body


def check_case(case, rec, bases, max3d=23):
    rec.case()
    b = bases[case['base'] % len(bases)]
    ctor = case['ctor']
    dim = DIM[ctor]
    tag = 'C15/%s' % ctor
    cj = dict(case)
    cj['base_rule'] = b
    try:
        base, d = make_base(b)
        if dim == 3 and d > max3d:
            rec.exclude('3d_base_degree_above_tier_cap')
            return
        with repo.quiet():
            s = build(ctor, base)
        p0 = np.array(s.points, dtype=float, copy=True)
        w0 = np.array(s.weights, dtype=float, copy=True)
        # --- mirrors in the generated call order; every intermediate object is checked
        flips = [False, False, False]
        cur = s
        seq = case['mirrors'] if ctor != 'affine1d' else ''
        if ctor == 'mirror1d' and not seq:
            seq = 'x'
        for ch in seq:
            ax = 'xyz'.index(ch)
            if dim == 1:
                ax = 0
                with repo.quiet():
                    cur = cur.mirror()
            else:
                if ax >= dim:
                    continue
                with repo.quiet():
                    cur = getattr(cur, 'mirror_' + 'xyz'[ax])()
            flips[ax] = not flips[ax]
            exp = p0.copy()
            if dim == 1:
                if flips[0]:
                    exp = 1 - exp
            else:
                for a in range(dim):
                    if flips[a]:
                        exp[a] = 1 - exp[a]
            got = np.array(cur.points, dtype=float)
            if got.shape != exp.shape or np.max(np.abs(got - exp)) > 4 * EPS or \
                    np.max(np.abs(np.array(cur.weights, dtype=float) - w0)) > 0:
                rec.violation(tag + '/mirror_points', {'sequence': seq, 'axis': ch}, cj)
                return
            if np.max(np.abs(np.array(s.points, dtype=float) - p0)) > 0 or np.max(np.abs(np.array(s.weights) - w0)) > 0:
                rec.violation(tag + '/mirror_aliases_original', {'sequence': seq}, cj)
                return
        if seq and case['box'][0][0] > 0:
            # a mirrored scheme is an object of its own: changing its arrays in place must not change the scheme it
            # was derived from (checked on a throw-away pair built the same way)
            with repo.quiet():
                s_a = build(ctor, make_base(b)[0])
                m_a = s_a.mirror() if dim == 1 else getattr(s_a, 'mirror_' + seq[0] if 'xyz'.index(seq[0]) < dim else 'mirror_x')()
            keep_p, keep_w = np.array(s_a.points, copy=True), np.array(s_a.weights, copy=True)
            m_a.weights *= 0.125
            m_a.points *= 0.5
            if np.max(np.abs(np.array(s_a.points) - keep_p)) > 0 or np.max(np.abs(np.array(s_a.weights) - keep_w)) > 0:
                rec.violation(tag + '/mirror_shares_arrays_with_original', {'sequence': seq}, cj)
                return
        # --- exactness on the target box, all monomials up to the advertised total degree
        deg = d - LOSS[ctor]
        box = case['box'][:dim]
        hs = [bb[1] - bb[0] for bb in box]
        noise = sum(EPS * (abs(bb[0]) + abs(bb[1])) / h for bb, h in zip(box, hs))
        if deg < 0:
            rec.exclude('degree_range_empty')
            return
        worst = 0.0
        worst_m = None
        nontriv = any(abs(h - 1.0) > 1e-9 for h in hs) or any(bb[0] != 0.0 for bb in box)
        symmetric = ctor.endswith('_sym')
        for mono in itertools.product(range(deg + 1), repeat=dim):
            tot = sum(mono)
            if tot > deg:
                continue
            if symmetric and mono[0] > mono[1]:
                continue      # the symmetric variants integrate integrands symmetric in the first two (un-mirrored) local coordinates

            def local(x, a):
                xi = (x[a] - box[a][0]) / hs[a] if dim > 1 else (x - box[0][0]) / hs[0]
                return 1 - xi if (symmetric and flips[a]) else xi

            def f(x, mono=mono):
                if dim == 1:
                    return local(x, 0)**mono[0]
                r = 1.0
                for a in range(dim):
                    r = r * local(x, a)**mono[a]
                if symmetric:
                    r2 = local(x, 0)**mono[1] * local(x, 1)**mono[0]
                    for a in range(2, dim):
                        r2 = r2 * local(x, a)**mono[a]
                    r = 0.5 * (r + r2)
                return r
            args = [v for bb in box for v in bb]
            with repo.quiet():
                val = float(cur.integrate(f, *args))
            exact = 1.0
            for a in range(dim):
                exact *= hs[a] / (mono[a] + 1)
            err = abs(val - exact) / exact
            tol = 1e-12 + 4 * (tot + 1) * noise
            rec.case()
            if tot > 0 and nontriv:
                rec.nontriv([b, ctor, seq, box, list(mono)])
            if err / tol > worst:
                worst, worst_m = err / tol, (list(mono), err, tol)
        # the same scheme object is used for further boxes (incl. end points -1 / -2 / 0 in one slot) and, in 1-D,
        # re-entrantly (an iterated integral computed with a single rule): earlier calls must leave nothing behind
        if deg >= 1 and worst <= 1.0:
            for lo in (-1.0, -2.0, 0.0, -1.0):
                bx = [[lo, 0.5]] + [[0.0, 1.0]] * (dim - 1)
                args = [v for bb in bx for v in bb]
                with repo.quiet():
                    if dim == 1:
                        val = float(cur.integrate(lambda x: (x - lo), *args))
                    else:
                        val = float(cur.integrate(lambda x: (x[0] - lo) * (1 if not symmetric else 1), *args)) if not symmetric else \
                            float(cur.integrate(lambda x: x[0] * 0 + 1.0, *args))
                exact = (0.5 - lo) ** 2 / 2 if not (symmetric and dim > 1) else (0.5 - lo)
                rec.case()
                if abs(val - exact) > 1e-11 * abs(exact):
                    rec.violation(tag + '/object_reused_for_another_box', {'box': bx, 'value': val, 'exact': exact, 'mirrors': seq}, cj)
                    return
            if dim == 1:
                a0, b0 = box[0]
                with repo.quiet():
                    val = float(cur.integrate(lambda x: np.array([cur.integrate(lambda y: (y - 2.0) + 0 * xi, 2.0, 3.5) * (xi - a0) / hs[0]
                                                                  for xi in np.atleast_1d(x)]), a0, b0))
                exact = (1.5 ** 2 / 2) * hs[0] / 2
                rec.case()
                if abs(val - exact) > (1e-11 + 8 * noise) * abs(exact):
                    rec.violation(tag + '/not_reentrant', {'value': val, 'exact': exact}, cj)
                    return
        rec.metric('err_over_tol', worst, None)
        rec.cls(ctor)
        if worst > 1.0:
            clause = 'measure' if sum(worst_m[0]) == 0 else 'exactness'
            rec.violation('%s/%s' % (tag, clause), {'monomial': worst_m[0], 'rel_err': worst_m[1], 'tol': worst_m[2],
                                                     'degree_claimed': deg, 'mirrors': seq}, cj)
            return
        if len(rec.samples) < 6 and nontriv and deg >= 2:
            rec.sample(cj)
    except Exception as ex:
        from vlib.meshdrive import exc_site
        if exc_site(ex) == 'harness':
            raise
        rec.violation(tag + '/exception/' + type(ex).__name__, {'error': repr(ex)}, cj)


# ------------------------------------------------------------------ fixed families
def sym_vs_nonsym(rec, bases):
    from src import quadrature as q
    for b in bases:
        base, d = make_base(b)
        if d < 2 or len(base.points) > 9:
            continue
        for h, a in ((1.0, 0.0), (0.37, 2.0), (12.0, -5.0)):
            rec.case()
            rec.nontriv(['symnonsym', b, h, a])
            rec.cls('sym_vs_nonsym')
            with repo.quiet():
                s2s = q.DuffyScheme2D(q.ProductScheme2D(base), symmetric=True)
                s2n = q.DuffyScheme2D(q.ProductScheme2D(base), symmetric=False)
                f2 = lambda x: np.log(np.abs(x[0] - x[1]) / h) * (1 + (x[0] - a) * (x[1] - a) / h**2)
                v1 = s2s.integrate(f2, a, a + h, a, a + h)
                v2 = s2n.integrate(f2, a, a + h, a, a + h)
            if abs(v1 - v2) > 1e-13 * abs(v1) + 1e-300:
                rec.violation('C15/duffy2d/sym_vs_nonsym', {'base': b, 'h': h, 'a': a, 'values': [float(v1), float(v2)]},
                              {'fixed': 'sym2d', 'base_rule': b})
            if len(base.points) <= 6:
                with repo.quiet():
                    s3s = q.DuffySchemeIdentical3D(q.ProductScheme3D(base), symmetric_xy=True)
                    s3n = q.DuffySchemeIdentical3D(q.ProductScheme3D(base), symmetric_xy=False)
                    f3 = lambda x: np.log(((x[0] - x[1])**2 + (x[2] - a)**2) / h**2) * (1 + (x[0] - a) * (x[1] - a) / h**2)
                    v1 = s3s.integrate(f3, a, a + h, a, a + h, a, a + h)
                    v2 = s3n.integrate(f3, a, a + h, a, a + h, a, a + h)
                if abs(v1 - v2) > 1e-13 * abs(v1) + 1e-300:
                    rec.violation('C15/duffy3d/sym_vs_nonsym', {'base': b, 'values': [float(v1), float(v2)]},
                                  {'fixed': 'sym3d', 'base_rule': b})


def closed_forms():
    mp.mp.dps = 30
    inner = lambda u: mp.log(1 + u * u) - 2 + 2 * u * mp.atan(1 / u)
    id3 = 2 * mp.quad(lambda u: (1 - u) * inner(u), [0, 1])
    tri = lambda s: s if s <= 1 else 2 - s
    touch3 = mp.quad(lambda s: tri(s) * inner(s), [0, 1, 2])
    return {'log|x-y|': -1.5, 'log(x+y)': float(2 * mp.log(2) - mp.mpf(3) / 2), 'id3': float(id3), 'touch3': float(touch3)}


def convergence(rec):
    from src import quadrature as q
    cf = closed_forms()
    fams = {
        'log|x-y|': lambda n: q.DuffyScheme2D(q.ProductScheme2D(q.log_quadrature_scheme(n, n)), symmetric=False).integrate(
            lambda x: np.log(np.abs(x[0] - x[1])), 0, 1, 0, 1),
        'log(x+y)': lambda n: q.DuffyScheme2D(q.ProductScheme2D(q.log_quadrature_scheme(n, n)), symmetric=True).integrate(
            lambda x: np.log(x[0] + x[1]), 0, 1, 0, 1),
        'id3': lambda n: q.DuffySchemeIdentical3D(q.ProductScheme3D(q.log_quadrature_scheme(n, n)), symmetric_xy=True).integrate(
            lambda x: np.log((x[0] - x[1])**2 + x[2]**2), 0, 1, 0, 1, 0, 1),
        'touch3': lambda n: q.DuffySchemeTouch3D(q.ProductScheme3D(q.log_quadrature_scheme(n, n))).integrate(
            lambda x: np.log((x[0] + x[1])**2 + x[2]**2), 0, 1, 0, 1, 0, 1),
    }
    for name, fn in fams.items():
        prev = None
        errs = []
        for n in range(1, 13):
            rec.case()
            rec.nontriv(['conv', name, n])
            rec.cls('log_singular_convergence')
            with repo.quiet():
                v = float(fn(n))
            e = abs(v - cf[name]) / abs(cf[name])
            errs.append(e)
            if prev is not None and not (e <= prev or e < 1e-10):
                rec.violation('C15/convergence/%s' % name, {'n': n, 'errors': errs}, {'fixed': 'conv', 'family': name})
                break
            prev = e
        rec.metric('final_err_' + name, errs[-1])
        if errs[-1] > 1e-9:
            rec.violation('C15/convergence/%s/not_converged' % name, {'errors': errs}, {'fixed': 'conv', 'family': name})


def run(ctx):
    bases = base_rules()
    n = ctx.share(12000 if ctx.quick else 80000)
    explore(ctx, cases(len(bases)), body_factory(bases, 9 if ctx.quick else 23), n)
    # every (base, constructor) pair at least once on a fixed non-unit offset box (complete over the finite part)
    pairs = [(i, c) for i in range(len(bases)) for c in CTORS]
    for i, c in ctx.mine(pairs):
        check_case({'base': i, 'ctor': c, 'mirrors': 'xyz' if (i % 2) else 'zyx',
                    'box': [[11.0, 11.5], [-3.0, -2.75], [200.0, 200.002]]}, ctx.rec, bases, 9 if ctx.quick else 23)
    if ctx.k == 0:
        sym_vs_nonsym(ctx.rec, bases)
    if ctx.k == 1 % ctx.n:
        convergence(ctx.rec)


def replay(case):
    rec = Recorder()
    bases = base_rules()
    if case.get('fixed') == 'conv':
        convergence(rec)
    elif case.get('fixed', '').startswith('sym'):
        sym_vs_nonsym(rec, bases)
    else:
        if 'base_rule' in case:
            bases = [case['base_rule']]
        check_case(case, rec, bases)
    return [(v['bucket'], v['detail']) for v in rec.violations]
