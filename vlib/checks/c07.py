"""C07 -- pointwise evaluation of the single-layer operator on the boundary."""
import numpy as np
from hypothesis import strategies as st

from vlib import repo, pairs, points, refint, gens
from vlib.common import explore, khash, Recorder
from vlib.geo import geo as get_geo
from vlib.checks.c01 import operator, intervals

ID = 'C07'
LEVEL = 'exploration'
RULE = ('curve (the five shipped ones and four further polygons / polylines: thin plate, offset rectangle, staircase, open polyline) x grid x history x trial leaf x time class {t_start, before, inside, t_end, shortly/far after, times with '
        'parabolic ratio h^2/tau in [0.5, 16]} x position class {interior, exact end points, 1e-8..1e-2 h outside, '
        '1e-2..3 h outside, 0, L, Gauss nodes of other elements, uniform, across the seam, on the neighbouring side} -- '
        'operator built after the history or kept across it with the leaves re-registered as the adaptive driver does -- evaluate vs a 1-D graded reference integral at two resolutions with the three tolerances of the property '
        '(1e-8 in the closed element, 2e-3 in the near layer, 5e-4 beyond 1 %), evaluate_exact on the same straight side '
        '(1e-7), evaluate_vector == element-wise evaluate (bitwise), and the integral clause: a tensor Gauss integral of '
        'evaluate / evaluate_exact over a later test element reproduces bilform. Excluded and counted: interior points '
        'within 1e-5 of an end point, ratio h^2/tau > 16. Non-trivial = reference > 1e-9 and the point is not the element '
        'centre; distinct by (mesh, element, t, x_hat).')
ASSUMPTIONS = ['vlib/refint.evaluate (analytic time integral, graded Gauss in space); a case is decisive only if two '
               'resolutions agree to 1/100 of the applicable tolerance',
               'integral clause: composite Gauss rule accepted only if doubling the panels changes it by < 1e-4 relative']


def shards(tier):
    return 16


def rel(val, ref):
    return abs(val - ref) / max(abs(ref), 1e-9)


def point_body(case, rec):
    rec.case()
    from vlib.meshdrive import exc_site
    holder = {}
    lifecycle = case['xi'] % 3 == 0
    # the value of evaluate does not depend on the operator's straight-panel switch: on polygons every other case builds
    # the operator with the switch on
    want_exact = bool(case['xi'] % 2) and get_geo(case['spec']['curve']).polygon

    def hook(lv, i):
        # the adaptive driver keeps ONE operator across its loops: it is constructed on the initial mesh and the
        # current leaves are registered again (ErrorEstimator.residual -> SL._init_elems) after each refinement step
        from src.single_layer import SingleLayerOperator
        with repo.quiet():
            if i == 0:
                holder['SL'] = SingleLayerOperator(lv.mesh, pw_exact=want_exact)
            elif i % 2 == 0:
                holder['SL']._init_elems(list(lv.mesh.leaf_elements))
    try:
        live, e, t, x, info = points.realise(case, hook if lifecycle else None)
    except Exception as ex:
        if exc_site(ex) == 'harness':
            raise
        rec.add('mesh_construction_failed')
        return
    g = get_geo(case['spec']['curve'])
    tt, tx = intervals(e)
    if t <= tt[0]:
        rec.exclude('acausal_time')       # exact zeros are C04
        return
    if info['inside'] and 0 < info['end_dist'] <= 1e-5 * (1 + 1e-9):
        rec.exclude('interior_point_within_1e-5_of_end')
        return
    if info['ratio'] is None or info['ratio'] > 16:
        rec.exclude('parabolic_ratio_above_16')
        return
    sides = g.sides_at(x)
    side_x = sides[-1] if case['side'] > 0 else sides[0]
    P = g.point(side_x, x).reshape(2, 1)
    cj = dict(case)
    cj['_point'] = {'t': t, 'x_hat': x, 'elem': [tt, tx], 'rel_out': info['rel_out']}
    ref = refint.evaluate(g, t, x, side_x, tt, tx, res='eval')
    ref2 = refint.evaluate(g, t, x, side_x, tt, tx, res='second')
    if info['inside']:
        tol, cls = 1e-8, 'in_closed_element'
    elif info['rel_out'] >= 0.01:
        tol, cls = 5e-4, 'beyond_1pct'
    else:
        tol, cls = 2e-3, 'near_layer'
    if rel(ref2, ref) > tol / 100:
        rec.inconclusive += 1
        return
    if lifecycle:
        SL = holder['SL']
        with repo.quiet():
            SL._init_elems(list(live.mesh.leaf_elements))
        rec.cls('operator_kept_across_refinements')
    else:
        SL = operator(live, want_exact)
    rec.cls('operator_switch_on' if want_exact else 'operator_switch_off')
    try:
        with repo.quiet():
            val = float(SL.evaluate(e, t, x, P))
    except Exception as ex:
        if exc_site(ex) == 'harness':
            raise
        rec.violation('C07/evaluate/exception/%s' % type(ex).__name__, {'error': repr(ex)}, cj)
        return
    rec.cls(cls)
    rec.cls('curve_' + g.name)
    rec.cls('t_' + case['tcl'])
    rec.cls('x_' + case['xcl'])
    err = rel(val, ref)
    rec.metric('relerr_' + cls, err, cj['_point'])
    centre = abs(x - 0.5 * (tx[0] + tx[1])) < 1e-12
    if ref > 1e-9 and not centre:
        rec.nontriv([case['spec'], case['ops'], tt, tx, t, x])
    if err > tol:
        h = tx[1] - tx[0]
        foot = g.nearest_param(side_x, np.array([x]), g.side_of(*tx), tx[0], tx[1])
        PY = g.point(g.side_of(*tx), foot)
        delta = float(np.hypot(PY[0][0] - P[0, 0], PY[1][0] - P[1, 0]))
        if cls == 'beyond_1pct' and delta <= h / 8 * (1 + 1e-9) and info['rel_out'] * h > 2 * delta and err <= 5e-2:
            # known finding K7: the point faces the element across a thin part of the domain -- at most h/8 away in the
            # plane but more than twice as far along the curve (around a right-angle
            # corner the ratio is at most sqrt 2); the rule is graded towards an end point of the
            # element, not towards the foot point
            rec.violation('C07/evaluate/beyond_1pct/facing_within_h_over_8_but_far_along_the_curve/err_below_5e-2',
                          {'value': val, 'reference': ref, 'rel_err': err, 'tolerance': tol, 'plane_distance_over_h': delta / h,
                           'curve_distance_over_h': info['rel_out']}, cj)
            return
        rec.violation('C07/evaluate/%s/%s' % (cls, 'seam' if (g.closed and (tx[0] == 0 or tx[1] == g.L)) else 'plain'),
                      {'value': val, 'reference': ref, 'rel_err': err, 'tolerance': tol, 'class': cls}, cj)
        return
    if g.straight(side_x) and side_x == g.side_of(*tx):
        try:
            with repo.quiet():
                ve = float(SL.evaluate_exact(e, t, x))
        except Exception as ex:
            if exc_site(ex) == 'harness':
                raise
            rec.violation('C07/evaluate_exact/exception/%s' % type(ex).__name__, {'error': repr(ex)}, cj)
            return
        ee = rel(ve, ref)
        rec.cls('evaluate_exact')
        rec.metric('relerr_evaluate_exact', ee, cj['_point'])
        if rel(ref2, ref) <= 1e-9 and ee > 1e-7:
            rec.violation('C07/evaluate_exact/%s' % cls, {'value': ve, 'reference': ref, 'rel_err': ee}, cj)
            return
    # evaluate_vector == element-wise evaluate (the documented precondition must hold for every element of the mesh)
    def pre_ok(el):
        a, b = el.space_interval
        return not (a < x < b) or min(x - a, b - x) > 1e-5
    if case['xi'] % 5 == 0 and not all(pre_ok(el) for el in live.mesh.leaf_elements):
        rec.exclude('evaluate_vector_point_within_1e-5_of_some_end')
    elif case['xi'] % 5 == 0:
        try:
            with repo.quiet():
                vec = np.asarray(SL.evaluate_vector(t, x), dtype=float)
                Px = np.asarray(live.mesh.gamma_space.eval(x), dtype=float).reshape(2, 1)
                each = np.array([float(SL.evaluate(el, t, x, Px)) for el in live.mesh.leaf_elements])
        except Exception as ex:
            if exc_site(ex) == 'harness':
                raise
            rec.violation('C07/evaluate_vector/exception/%s' % type(ex).__name__, {'error': repr(ex)}, cj)
            return
        rec.cls('evaluate_vector')
        if vec.shape != each.shape or not np.array_equal(vec, each):
            rec.violation('C07/evaluate_vector/mismatch', {'max_diff': float(np.max(np.abs(vec - each))) if vec.shape == each.shape else 'shape'}, cj)
            return
    if len(rec.samples) < 5:
        rec.sample(cj)


def gauss_integral(fun, t0, t1, x0, x1, nt, nx, p=8):
    from numpy.polynomial.legendre import leggauss
    xg, wg = leggauss(p)
    xg, wg = 0.5 * (xg + 1), 0.5 * wg
    tot = 0.0
    for i in range(nt):
        ta, tb = t0 + (t1 - t0) * i / nt, t0 + (t1 - t0) * (i + 1) / nt
        for j in range(nx):
            xa, xb = x0 + (x1 - x0) * j / nx, x0 + (x1 - x0) * (j + 1) / nx
            for a, wa in zip(xg, wg):
                for b, wb in zip(xg, wg):
                    tot += wa * wb * (tb - ta) * (xb - xa) * fun(ta + (tb - ta) * a, xa + (xb - xa) * b)
    return tot


def integral_body(case, rec):
    rec.case()
    from vlib.meshdrive import exc_site
    try:
        live, test, trial, reason = pairs.realise(case)
    except Exception as ex:
        if exc_site(ex) == 'harness':
            raise
        rec.add('mesh_construction_failed')
        return
    if reason:
        rec.exclude(reason)
        return
    g = get_geo(case['spec']['curve'])
    tt, tx = intervals(test)
    st_, sx = intervals(trial)
    h = sx[1] - sx[0]
    if not (tt[0] >= st_[1] + h * h / 16):
        rec.exclude('test_not_late_enough_for_the_pointwise_bound')
        return
    SL = operator(live, False)
    SL._init_elems([trial]) if not hasattr(trial, 'edges') else None
    side_t = g.side_of(*tx)
    gam = test.gamma_space
    cj = dict(case)
    cj['_pair'] = {'test': [tt, tx], 'trial': [st_, sx]}

    class Pre(Exception):
        pass

    def f_quad(t, x):
        if sx[0] < x < sx[1] and min(x - sx[0], sx[1] - x) <= 1e-5:
            raise Pre()
        return float(SL.evaluate(trial, t, x, np.asarray(gam(x), dtype=float).reshape(2, 1)))
    try:
        with repo.quiet():
            b = float(SL.bilform(trial, test))
            nx = max(1, int(np.ceil(2 * (tx[1] - tx[0]) / h)))
            nx = min(nx, 16)
            I1 = gauss_integral(f_quad, tt[0], tt[1], tx[0], tx[1], 1, nx)
            I2 = gauss_integral(f_quad, tt[0], tt[1], tx[0], tx[1], 2, 2 * nx)
            same_side = g.straight(side_t) and side_t == g.side_of(*sx)
            if same_side:
                f_ex = lambda t, x: float(SL.evaluate_exact(trial, t, x))
                J1 = gauss_integral(f_ex, tt[0], tt[1], tx[0], tx[1], 1, nx)
                J2 = gauss_integral(f_ex, tt[0], tt[1], tx[0], tx[1], 2, 2 * nx)
    except Pre:
        rec.exclude('integration_node_within_1e-5_of_trial_end')
        return
    except Exception as ex:
        if exc_site(ex) == 'harness':
            raise
        rec.violation('C07/integral/exception/%s' % type(ex).__name__, {'error': repr(ex)}, cj)
        return
    from vlib import refint as R
    scale = (R.diag(g, tt, tx, 'coarse') * R.diag(g, st_, sx, 'coarse'))**0.5
    rec.cls('integral_clause')
    if b > 1e-6 * scale:
        rec.nontriv(['int', case['spec'], tt, tx, st_, sx])
    if abs(I1 - I2) > 1e-4 * abs(I2) + 1e-9 * scale:
        rec.inconclusive += 1
    else:
        d = abs(I2 - b)
        rec.metric('integral_defect_over_tol', d / (2e-3 * b + 1e-7 * scale))
        if d > 2e-3 * b + 1e-7 * scale:
            rec.violation('C07/integral/evaluate', {'integral': I2, 'bilform': b, 'scale': scale}, cj)
            return
    if same_side:
        rec.cls('integral_clause_exact')
        if abs(J1 - J2) > 1e-7 * abs(J2) + 1e-9 * scale:
            rec.inconclusive += 1
        else:
            d = abs(J2 - b)
            rec.metric('integral_exact_defect_over_tol', d / (1e-6 * b + 1e-7 * scale))
            if d > 1e-6 * b + 1e-7 * scale:
                rec.violation('C07/integral/evaluate_exact', {'integral': J2, 'bilform': b, 'scale': scale}, cj)


def body(case, rec):
    if case.get('kind') == 'integral':
        integral_body(case, rec)
    else:
        point_body(case, rec)


def cases():
    tcs = ['inside', 'at_end', 'far_after', 'tau_start', 'tau_end', 'tau_end', 'shortly_after', 'at_start']
    pt = points.point_cases(time_classes=tcs, polygons=True).map(lambda c: dict(c, kind='point'))
    ig = st.one_of(pairs.target_cases(time_classes=['separated', 'touch_after'], curves=pairs.WITH_MIXED),
                   pairs.history_cases(curves=pairs.WITH_MIXED).map(lambda c: dict(c, tc='separated'))).map(lambda c: dict(c, kind='integral'))
    return st.one_of(pt, pt, pt, pt, pt, pt, pt, ig)


def facing_family():
    """deterministic: points facing an element across a thin part of the domain (close in the plane, far along the
    curve) at times of parabolic ratio 16 ... 3 after the element's start, on uniformly refined meshes"""
    out = []
    thin = points.POLYGONS[0]
    for curve, ks in ((thin, (0, 1, 3, 4, 5)), ('Stadium1', (2, 3, 4)), ('LShape', (3, 4)), ('Dee', (3, 4))):
        for k in ks:
            for ts in ([0.0, 0.25], [0.0, 0.01, 0.02]):
                for j in range(0, 24):
                    out.append({'kind': 'point', 'spec': {'kind': 'param', 'curve': curve, 'ts': ts, 'xs': None},
                                'ops': [['unifx']] * k, 'ei': j * 7 + k, 'tcl': 'tau_start', 'tpar': [0.0, 0.2, 0.4][j % 3],
                                'xcl': 'facing', 'xpar': [0.5, 0.3, 0.9][(j // 3) % 3], 'xi': j, 'side': 1})
    return out


def old_thin_family():
    """deterministic: trial elements of a thin first time slab (h_t = 0.002) seen from times 0.03 ... 0.3 later at 24
    positions around the curve (kernel arguments |x - y|^2 / 4 (t - t_mid) from 0 to beyond 10 on every curve)"""
    out = []
    for curve in ('UnitSquare', 'PiSquare', 'LShape', 'Circle', 'Stadium1'):
        for z in (0.03, 0.06, 0.1, 0.3):
            for j in range(24):
                out.append({'kind': 'point', 'spec': {'kind': 'param', 'curve': curve, 'ts': [0.0, 0.002, 1.0], 'xs': None},
                            'ops': [['unifx']], 'ei': j * 5 + 1, 'tcl': 'far_after', 'tpar': z / 0.998, 'xcl': 'uniform',
                            'xpar': (j + 0.37) / 24.0, 'xi': j, 'side': 1})
    return out


def hair_family():
    """deterministic: a leaf of width 2^-15 (15 bisections towards x = 0) whose time interval ends at 0.5, evaluated a
    relative 1.5e-10 ... 9.5e-10 after its end (parabolic ratio 12 ... 2), inside, at its end points and just outside"""
    out = []
    for curve in ('UnitSquare', 'Circle'):
        for u in (0.0, 0.3, 0.7, 1.0):
            for xcl, v in (('interior', 0.5), ('interior', 0.1), ('end_b', 0.0), ('end_a', 0.0), ('mid_out', 0.52), ('near_out', 0.9)):
                out.append({'kind': 'point', 'spec': {'kind': 'param', 'curve': curve, 'ts': [0.0, 0.5, 1.0], 'xs': None},
                            'ops': [['x', ['x0', 0]]] + [['x', ['last0', 0]]] * (14 if curve == 'UnitSquare' else 15),
                            'ei': 0, 'pick': 'narrowest', 'min_hx': None, 'tcl': 'hair_after_end', 'tpar': u,
                            'xcl': xcl, 'xpar': v, 'xi': 1, 'side': 1})
    return out


def facing_all_leaves():
    """every leaf of the uniformly refined thin plate with the point exactly opposite, at a time for which the kernel
    argument delta^2/(4 tau) is about 3 (the value is sizeable) at parabolic ratio 11 / 2.8: the leaves in the middle
    of the long sides are as far from their facing point along the curve as the curve allows"""
    out = []
    thin = points.POLYGONS[0]
    for k, u in ((4, 0.12), (5, 0.4)):
        for ei in range(4 << k):
            out.append({'kind': 'point', 'spec': {'kind': 'param', 'curve': thin, 'ts': [0.0, 0.25], 'xs': None},
                        'ops': [['unifx']] * k, 'ei': ei, 'tcl': 'tau_start', 'tpar': u, 'xcl': 'facing', 'xpar': 0.5,
                        'xi': 1, 'side': 1})
    return out


def run(ctx):
    fam = facing_family()
    for case in ctx.mine((fam if not ctx.quick else fam[(ctx.seed % 2)::2]) + facing_all_leaves() + old_thin_family() + hair_family()):
        body(case, ctx.rec)
    n = ctx.share(32000 if ctx.quick else 320000)
    explore(ctx, cases(), body, n)


def replay(case):
    rec = Recorder()
    body(case, rec)
    return [(v['bucket'], v['detail']) for v in rec.violations]
