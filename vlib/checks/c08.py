"""C08 -- initial-potential load vector equals the integral of the exact initial potential."""
import math

import numpy as np
from hypothesis import strategies as st

from vlib import repo, gens, pairs, heatext, refint
from vlib.common import explore, khash, Recorder
from vlib.geo import geo as get_geo
from vlib.meshreal import Live, apply_op

ID = 'C08'
LEVEL = 'exploration'
RULE = ('domain in {UnitSquare, PiSquare, LShape (long sides pre-split)} x bisection history x boundary leaf whose space '
        'interval is a dyadic sub-interval (level <= 6) of a unit piece of a side, aspect <= 32, time intervals incl. those '
        'starting at 0 x initial datum: 1, the sine product, and products of monomials of degree <= 2 / sin factors with '
        'positive coefficients (x, sin(x) y, random quadratics). Oracle: (a) linform vs the integral over the element of '
        'the closed-form heat extension (vlib/heatext.py: Gaussian moments, complex erf) by graded Gauss in t and x, '
        '1e-5 relative for 1 and the sine product, 1e-6 for the others; (b) linearity linform(au+bv) = a linform(u) + '
        'b linform(v); (c) additivity over time halves, space halves, quarters (3e-6 of the sum of |terms|); (d) '
        'InitialOperator.evaluate(t, x) vs the closed form for t >= 0.05 side^2 (1e-5); (e) linform_vector (serial and '
        'pool, successive calls with different lists on one operator) == element-wise linform in order. Non-trivial = '
        'element not on the coarsest level, or touching t = 0, or adjacent to a corner; distinct by (domain, rectangle, u0).')
ASSUMPTIONS = ['closed forms of vlib/heatext.py (self-tested against direct quadrature); element integrals of the '
               'extension at two resolutions, decisive only if they agree to 1/100 of the tolerance']


def shards(tier):
    return 16


INIT = {'UnitSquare': 'UnitSquareBoundaryRefined', 'PiSquare': 'PiSquareBoundaryRefined', 'LShape': 'LShapeBoundaryRefined'}


def datum(spec, dom):
    """-> (heatext.Product, tolerance)"""
    k = spec['k']
    if k == 'one':
        return heatext.Product([(1.0, ('mono', 0), ('mono', 0))]), 1e-5
    if k == 'sine':
        kap = math.pi if dom == 'UnitSquare' else 1.0
        return heatext.Product([(1.0, ('sin', kap), ('sin', kap))]), 1e-5
    if k == 'x':
        return heatext.Product([(1.0, ('mono', 1), ('mono', 0)), (1.5, ('mono', 0), ('mono', 0))]), 1e-6
    if k == 'sinxy':
        return heatext.Product([(1.0, ('sin', 1.0), ('mono', 1)), (2.0, ('mono', 0), ('mono', 0))]), 1e-6
    # random quadratic with positive values on the domain: sum c_ij (x+1)^i (y+1)^j expanded
    terms = []
    cs = spec['c']
    n = 0
    for i in range(3):
        for j in range(3 - i):
            c = float(cs[n % len(cs)])
            n += 1
            # (x+1)^i = sum_p binom(i,p) x^p
            for p in range(i + 1):
                for q in range(j + 1):
                    terms.append((c * math.comb(i, p) * math.comb(j, q), ('mono', p), ('mono', q)))
    return heatext.Product(terms), 1e-6


def u0_callable(prod, k):
    if k == 'one':
        return lambda xy: 1
    return prod.u0


def elem_integral(prod, dom, g, t_int, x_int, res):
    """int_E u(t, gamma(x)) dx dt with graded Gauss in t (towards t0) and x (towards both ends)"""
    ratio, lev, p = res
    t0, t1 = t_int
    c, d = x_int
    bt = refint.graded_panels(t0, t1, [t0], ratio, ratio**lev)
    bx = refint.graded_panels(c, d, [c, d], ratio, ratio**lev)
    T, WT = refint.composite_nodes(bt, p)
    X, WX = refint.composite_nodes(bx, p)
    P = g.point(g.side_of(c, d), X)
    rects = heatext.RECTS[dom]
    TT = T[:, None]
    val = prod.extension(rects, TT, P[0][None, :], P[1][None, :])
    return float(WT @ val @ WX)


def get_operator(live, dom, prod, k, cache={}):
    from src.initial_potential import InitialOperator
    from src import initial_mesh as im
    with repo.quiet():
        return InitialOperator(bdr_mesh=live.mesh, u0=u0_callable(prod, k), initial_mesh=getattr(im, INIT[dom]))


def build(case):
    dom = case['dom']
    spec = {'kind': 'param', 'curve': dom, 'ts': case['ts'], 'xs': [float(i) for i in range(9)] if dom == 'LShape' else None}
    live = Live(spec, min_hx=1e-4)
    for op in case['ops']:
        apply_op(live, op, cap=200)
    return live, spec


def select_leaf_for_refine(live, i):
    ls = [e for e in live.mesh.leaf_elements if pairs.aspect_ok(e, 16.0)]
    ls = ls or list(live.mesh.leaf_elements)
    return ls[i % len(ls)]


def eligible_all(live, e):
    return True


def eligible(live, e):
    b = live.skey(e)
    return b.lx <= 6 and pairs.aspect_ok(e)


def body(case, rec):
    rec.case()
    from vlib.meshdrive import exc_site
    dom = case['dom']
    try:
        live, spec = build(case)
    except Exception as ex:
        if exc_site(ex) == 'harness':
            raise
        rec.add('mesh_construction_failed')
        return
    g = get_geo(dom)
    leaves = [e for e in live.leaves() if eligible(live, e)]
    if not leaves:
        rec.exclude('no_eligible_element')
        return
    e = leaves[case['ei'] % len(leaves)]
    k = case['u0']['k']
    if k == 'sine' and dom == 'LShape':
        k = 'x'
        case = dict(case, u0={'k': 'x'})
    prod, tol = datum(case['u0'], dom)
    t_int = (float(e.time_interval[0]), float(e.time_interval[1]))
    x_int = (float(e.space_interval[0]), float(e.space_interval[1]))
    cj = dict(case)
    cj['_elem'] = [t_int, x_int]
    B = lambda c: 'C08/%s/%s' % (dom, c)
    try:
        M0 = get_operator(live, dom, prod, k)
        with repo.quiet():
            val, parts = M0.linform(e)
        val = float(val)
    except Exception as ex:
        if exc_site(ex) == 'harness':
            raise
        rec.violation(B('linform_exception/%s/%s' % (exc_site(ex), type(ex).__name__)), {'error': repr(ex)}, cj)
        return
    ref = elem_integral(prod, dom, g, t_int, x_int, (0.25, 14, 12))
    ref2 = elem_integral(prod, dom, g, t_int, x_int, (0.3, 12, 9))
    b = live.skey(e)
    nontriv = b.lx > 0 or b.lt > 0 or t_int[0] == 0.0
    rec.cls('dom_' + dom)
    rec.cls('u0_' + k)
    if t_int[0] == 0.0:
        rec.cls('touches_t0')
    if nontriv:
        rec.nontriv([dom, t_int, x_int, case['u0']])
    if abs(ref - ref2) > tol / 100 * abs(ref):
        rec.inconclusive += 1
    else:
        err = abs(val - ref) / abs(ref)
        rec.metric('relerr_%s' % ('closed' if tol == 1e-5 else 'poly'), err, cj['_elem'])
        if err > tol:
            reentrant = dom == 'LShape' and (x_int[0] == 0.0 or x_int[1] == float(g.L))
            if tol == 1e-6 and err <= 1e-5 and reentrant and t_int[1] <= (1.0 / 64) * (1 + 1e-12):
                # non-constant datum, within the 1e-5 of the statement but above the 1e-6 of the quantifier, on an element
                # that touches the re-entrant corner of the L-shape and ends at or before t = 1/64 (known finding K6)
                rec.violation(B('value_nonconstant_above_1e-6/at_reentrant_corner_before_t_1_64'),
                              {'linform': val, 'reference': ref, 'rel_err': err, 'tolerance': tol, 'elem': [t_int, x_int]}, cj)
            else:
                rec.violation(B('value/%s' % k), {'linform': val, 'reference': ref, 'rel_err': err, 'tolerance': tol}, cj)
                return
    mode = case['extra']
    try:
        if mode == 'linearity':
            p2, _ = datum({'k': 'quad', 'c': case['c2']}, dom)
            al, be = case['alpha'], case['beta']
            comb = heatext.Product([(al * c, fx, fy) for c, fx, fy in prod.terms] + [(be * c, fx, fy) for c, fx, fy in p2.terms])
            with repo.quiet():
                v2 = float(get_operator(live, dom, p2, 'quad').linform(e)[0])
                vc = float(get_operator(live, dom, comb, 'quad').linform(e)[0])
            rec.cls('linearity')
            lhs, rhs = vc, al * val + be * v2
            if abs(lhs - rhs) > 1e-9 * (abs(al * val) + abs(be * v2)):
                rec.violation(B('linearity'), {'combined': lhs, 'sum': rhs}, cj)
                return
        elif mode == 'additivity':
            for kind in ('time', 'space', 'quarters'):
                names = {'time': ['t0', 't1'], 'space': ['x0', 'x1'], 'quarters': ['q0', 'q1', 'q2', 'q3']}[kind]
                pieces = [pairs.make_piece(live, e, nm) for nm in names]
                if not all(pairs.aspect_ok(p) for p in pieces) or (kind != 'time' and b.lx >= 6):
                    rec.exclude('piece_outside_domain_of_property')
                    continue
                with repo.quiet():
                    vs = [float(M0.linform(p)[0]) for p in pieces]
                rec.cls('additivity_' + kind)
                if abs(sum(vs) - val) > 3e-6 * (sum(abs(v) for v in vs)):
                    rec.violation(B('additivity/' + kind), {'whole': val, 'pieces': vs}, cj)
                    return
        elif mode == 'evaluate':
            side = g.breaks[1] - g.breaks[0] if dom != 'LShape' else 1.0
            t = (0.05 + 2.0 * case['alpha']**2) * side * side
            xh = x_int[0] + (x_int[1] - x_int[0]) * min(1.0, abs(case['beta']) / 3.0)
            P = g.point(g.side_of(*x_int), xh).reshape(2, 1)
            with repo.quiet():
                ve = float(np.ravel(M0.evaluate(t, P))[0])
            re = float(np.ravel(prod.extension(heatext.RECTS[dom], t, P[0], P[1]))[0])
            rec.cls('evaluate')
            rec.metric('relerr_evaluate', abs(ve - re) / abs(re))
            if abs(ve - re) > 1e-5 * abs(re):
                rec.violation(B('evaluate'), {'value': ve, 'closed_form': re, 't': t}, cj)
                return
        elif mode == 'vector':
            import src.initial_potential as ipm
            A = leaves[: min(len(leaves), 6)]
            Bl = leaves[::-1][: min(len(leaves), 4)]
            with repo.quiet():
                single = {id(x): float(M0.linform(x)[0]) for x in A + Bl}
                v1 = np.asarray(M0.linform_vector(elems=A, use_mp=False), dtype=float)
                with repo.pool_shim([ipm], 1 + case['ei'] % 3):
                    v2 = np.asarray(M0.linform_vector(elems=A, use_mp=True), dtype=float)
                    v3 = np.asarray(M0.linform_vector(elems=Bl, use_mp=True), dtype=float)
                # the same list object changed in place between two pool calls, and the default list (None = the
                # mesh's current leaves) after the mesh was refined behind the operator's back
                same = list(A)
                with repo.pool_shim([ipm], 2):
                    M0.linform_vector(elems=same, use_mp=True)
                    same.reverse()
                    v4 = np.asarray(M0.linform_vector(elems=same, use_mp=True), dtype=float)
                pick = select_leaf_for_refine(live, case['ei'])
                live.mesh.refine_time(pick)
                now = list(live.mesh.leaf_elements)
                v5 = np.asarray(M0.linform_vector(use_mp=False), dtype=float) if len(now) <= 40 else None
                for x in same + (now if v5 is not None else []):
                    if id(x) not in single and eligible_all(live, x):
                        single[id(x)] = float(M0.linform(x)[0])
            rec.cls('linform_vector')
            extra = [('pool_same_list_changed_in_place', v4, same)]
            if v5 is not None and all(id(x) in single for x in now):
                extra.append(('default_list_after_refinement', v5, now))
            for nm, vec, lst in [('serial', v1, A), ('pool', v2, A), ('pool_second_call', v3, Bl)] + extra:
                want = np.array([single[id(x)] for x in lst])
                if vec.shape != want.shape or not np.array_equal(vec, want):
                    rec.violation(B('linform_vector/' + nm), {'got': vec.tolist(), 'element_wise': want.tolist()}, cj)
                    return
    except Exception as ex:
        if exc_site(ex) == 'harness':
            raise
        rec.violation(B('%s_exception/%s' % (mode, type(ex).__name__)), {'error': repr(ex)}, cj)
        return
    if len(rec.samples) < 5 and nontriv:
        rec.sample(cj)


def cases(max_ops):
    pos = st.floats(0.1, 2.0).map(lambda v: round(v, 3))
    u0 = st.one_of(st.just({'k': 'one'}), st.just({'k': 'sine'}), st.just({'k': 'x'}), st.just({'k': 'sinxy'}),
                   st.lists(pos, min_size=3, max_size=6).map(lambda c: {'k': 'quad', 'c': c}))
    return st.fixed_dictionaries({
        'dom': st.sampled_from(['UnitSquare', 'PiSquare', 'LShape']),
        'ts': st.sampled_from([[0.0, 1.0], [0.0, 0.5, 1.0], [0.0, 0.25], [0.0, 2.0]]),
        'ops': gens.graded_histories(max_ops=max_ops, allow=('t', 'x', 'tx')), 'ei': st.integers(0, 10**6), 'u0': u0,
        'extra': st.sampled_from(['none', 'none', 'linearity', 'additivity', 'evaluate', 'vector']),
        'c2': st.lists(pos, min_size=3, max_size=6), 'alpha': st.floats(0.1, 2.0), 'beta': st.floats(-2.0, 3.0),
    })


def run(ctx):
    if ctx.k == 0:
        heatext.selftest()
    n = ctx.share(4000 if ctx.quick else 32000)
    explore(ctx, cases(20 if ctx.quick else 40), body, n)


def replay(case):
    rec = Recorder()
    body(case, rec)
    return [(v['bucket'], v['detail']) for v in rec.violations]
