"""C02 -- leaves tile the cylinder, minimally and 1-irregularly (model lock-step)."""
from vlib import meshdrive
from vlib.common import explore

ID = 'C02'
LEVEL = 'exploration'
RULE = ('[thorough tier additionally: a 300 s atheris/libFuzzer campaign on byte-encoded histories with the same oracle inside the target] '
        '(a) bounded exhaustive BFS over all sequences of single time/space bisections from six small abstract '
        'initial meshes (glued 1x1, 1x2, 1x3, 2x1; open 1x2, 2x2), de-duplicated by refinement tree + half-edge link '
        'flags, every distinct state compared with the exact dyadic-box reference model (leaf set == smallest '
        '1-irregular refinement, geometry, bookkeeping, vertices, gmsh); (b) Hypothesis-generated operation '
        'histories (t, x, tx, uniform, uniform-space, Doerfler iso/aniso, grading) on abstract float grids and on '
        'every shipped curve incl. custom initial grids, checked after every operation. Non-trivial = state/history '
        'in which the closure bisected an element other than the requested one, or reached with >= 2 operation '
        'kinds; distinct by tree fingerprint (BFS) or by the whole case (histories).')
ASSUMPTIONS = ['Doerfler operations inside histories are judged with the oracle of C06 (exact-rational bulk set, model closure); grading by validity (C19)',
               'the reference model (vlib/meshmodel.py): exact dyadic boxes, geometric neighbour rule, forced-repair '
               'closure; its fixpoint is the smallest 1-irregular refinement because levels only grow',
               'marking and grading operations are judged by validity only here (1-irregular tiling refining the '
               'previous mesh); their exact outcome is C06 / C19']


def shards(tier):
    return 16


def run(ctx):
    depth = 4 if ctx.quick else 5
    subs = ctx.mine(meshdrive.bfs_subtrees())
    meshdrive.bfs(ctx, 'C02', depth, subs)
    for case in ctx.mine(meshdrive.deep_family()):
        meshdrive.run_history(case, ctx.rec, 'C02', cap=2000)
    for case in ctx.mine(meshdrive.large_family()):
        meshdrive.run_history(case, ctx.rec, 'C02', cap=20000)
    n = ctx.share(1600 if ctx.quick else 8000)
    strat = meshdrive.history_cases(max_ops=30 if ctx.quick else 60,
                                    allow=('t', 'x', 'tx', 'unif', 'unifx', 'iso', 'aniso', 'grade'))
    explore(ctx, strat, lambda case, rec: meshdrive.run_history(case, rec, 'C02'), n)
    if not ctx.quick and ctx.k == ctx.n - 1:
        meshdrive.fuzz(ctx, 'C02', 300)


def replay(case):
    return meshdrive.replay_case(case, 'C02')


def coverage_hook(cov, tier):
    cov['transitions'] = cov.get('transitions_bfs', 0) + cov.get('transitions_random', 0)
