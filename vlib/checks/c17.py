"""C17 -- assembly paths, worker schedules and the disk cache are transparent (stateful differential)."""
import glob
import os
import shutil

import numpy as np
from hypothesis import strategies as st

from vlib import repo
from vlib.common import explore, khash, Recorder
from vlib.meshreal import Live, apply_op

ID = 'C17'
LEVEL = 'exploration'
RULE = ('Hypothesis-generated call histories (5..14 operations) against ONE cache directory: assemble(curve, test list, '
        'trial list, serial | pool with 1..16 workers) with lists drawn from a prepared pool (whole meshes, rectangular '
        'N != M lists on both sides of the N*M < 100 inline threshold, permutations, estimator quarter lists, two curves '
        '(UnitSquare / LShape) whose sub-lists have identical element reprs, both values of the straight-panel switch (one directory each, as the driver does), two lists of 255 elements that agree in their first and last elements, different lists of one curve with equal N, M), '
        'new operator object on the same directory, damage of a stored file (delete, empty, header only, half, one byte '
        'short, 64 garbage bytes), and the same for InitialOperator.linform_vector. Invariant after every call: the '
        'returned array equals, bit for bit, the array of single-pair bilform(trial_j, test_i) / single-element linform '
        'values; at most one file per distinct (curve, lists) key; after damage the next call returns the exact array and '
        'leaves a loadable file; plus the complete enumeration {matrix file, vector file} x six damage classes x {serial, '
        'pool} for the call after the damage, and faults injected in the middle of a computation (the datum of the 36th of 48 '
        'elements / the curve of the last trial column raises), after which a fresh operator on the same directory must '
        'return the exact array. Non-trivial = history with a cache hit after damage, or a pool call with >= 2 workers and '
        'N*M >= 100; distinct by history.')
ASSUMPTIONS = ['the operating system\'s scheduling of the pool workers is not controlled; worker count, chunk size (through '
               'the code\'s own formula) and call history are', 'single-pair bilform / single-element linform is the '
               'definition the arrays are compared with (their correctness is C01 / C08)']

DAMAGE = ['delete', 'empty', 'header', 'half', 'short', 'garbage']


def shards(tier):
    return 16


class World:
    """prepared meshes and element lists (deterministic)"""
    def __init__(self):
        from src.hierarchical_error_estimator import DummyElement
        self.lives = {}
        self.lists = {}
        for name, ts in (('UnitSquare', [0.0, 0.5, 1.0]), ('LShape', [0.0, 0.5, 1.0]), ('Circle', [0.0, 1.0])):
            live = Live({'kind': 'param', 'curve': name, 'ts': ts,
                         'xs': {'LShape': [float(i) for i in range(9)], 'UnitSquare': [0.0, 1.0, 2.0, 3.0, 4.0]}.get(name)})
            apply_op(live, ['x', ['any', 0]])
            apply_op(live, ['t', ['any', 1]])
            if name == 'Circle':
                apply_op(live, ['unif'])
            else:
                apply_op(live, ['unifx'])
            self.lives[name] = live
            L = live.leaves()
            first_two = [e for e in L if e.space_interval[1] <= 2.0]
            self.lists[name] = {
                'all': L,
                'small': L[:5],
                'small2': L[3:9],
                'nine': L[2:11],
                'perm': L[::-1],
                'rows': L[:7],
                'cols': L[2:],
                'first_two_sides': first_two,
                'x_le_4': [e for e in L if e.space_interval[1] <= 4.0],
                'quarters': [c for q in DummyElement.uniform_refinement(L[:3]) for c in q],
                'alt_a': L[0:12],
                'alt_b': L[1:13],
            }
        self.single = {}
        self.m0_single = {}
        big = Live({'kind': 'param', 'curve': 'UnitSquare', 'ts': [0.0, 1.0], 'xs': None})
        apply_op(big, ['unif'])
        apply_op(big, ['unif'])
        self.lives['UnitSquareBig'] = big
        BL = big.leaves()
        self.lists['UnitSquareBig'] = {'big': BL[:48], 'c17': BL[:17], 'c34': BL[:34], 'c37': BL[:37], 'c49': BL[:49],
                                       'r6': BL[50:56], 'r8': BL[40:48], 'c64': BL, 'r3': BL[61:64]}
        # UnitSquare and LShape (unit pieces) coincide in parameter space on [0, 4] but not in the plane: their
        # x <= 4 lists have identical reprs, so only the curve name separates their cache keys
        self.twin_ok = str(self.lists['UnitSquare']['x_le_4']) == str(self.lists['LShape']['x_le_4']) and \
            len(self.lists['UnitSquare']['x_le_4'])**2 >= 100

    def pair_value(self, SL, name, test, trial):
        key = (name, id(test), id(trial), SL.pw_exact)
        if key not in self.single:
            with repo.quiet():
                self.single[key] = SL.bilform(trial, test)
        return self.single[key]


LISTS = ['all', 'small', 'small2', 'perm', 'rows', 'cols', 'first_two_sides', 'quarters', 'alt_a', 'alt_b', 'x_le_4']


def ops_strategy():
    asm = st.fixed_dictionaries({'op': st.just('assemble'), 'curve': st.sampled_from(['UnitSquare', 'LShape', 'Circle', 'UnitSquare']),
                                 'test': st.sampled_from(LISTS), 'trial': st.sampled_from(LISTS),
                                 'mp': st.booleans(), 'workers': st.integers(1, 16), 'exact': st.booleans()})
    dmg = st.fixed_dictionaries({'op': st.just('damage'), 'which': st.integers(0, 50), 'how': st.sampled_from(DAMAGE)})
    fresh = st.just({'op': 'fresh'})
    m0 = st.fixed_dictionaries({'op': st.just('m0'), 'lst': st.sampled_from(['small', 'small2', 'rows', 'nine']), 'mp': st.booleans(),
                                'workers': st.integers(1, 4)})
    def A(curve, test, trial, mp, w):
        return {'op': 'assemble', 'curve': curve, 'test': test, 'trial': trial, 'mp': mp, 'workers': w}
    # two curves whose lists have identical reprs and sizes; two lists of one curve with equal N, M
    twin = st.tuples(st.booleans(), st.booleans(), st.integers(1, 8)).map(
        lambda t: [A('UnitSquare' if t[0] else 'LShape', 'x_le_4', 'x_le_4', t[1], t[2]),
                   A('LShape' if t[0] else 'UnitSquare', 'x_le_4', 'x_le_4', False, 1)])
    alt = st.tuples(st.sampled_from(['UnitSquare', 'LShape', 'Circle']), st.booleans(), st.booleans(), st.integers(1, 8)).map(
        lambda t: [A(t[0], 'all', 'alt_a', t[2], t[3]), A(t[0], 'all', 'alt_b', False, 1)] if t[1] else
                  [A(t[0], 'alt_a', 'all', t[2], t[3]), A(t[0], 'alt_b', 'all', False, 1)])
    one = lambda x: [x]
    step = st.one_of(asm.map(one), asm.map(one), asm.map(one), dmg.map(one), dmg.map(one), fresh.map(one), m0.map(one), twin, alt)
    return st.lists(step, min_size=4, max_size=12).map(lambda ll: {'ops': [o for l in ll for o in l]})


def damage_file(path, how, which):
    size = os.path.getsize(path)
    if how == 'delete':
        os.remove(path)
    elif how == 'empty':
        open(path, 'wb').close()
    elif how == 'header':
        with open(path, 'rb') as f:
            data = f.read()
        n = 128 if size > 128 else max(1, size // 2)
        open(path, 'wb').write(data[:n])
    elif how == 'half':
        with open(path, 'rb') as f:
            data = f.read()
        open(path, 'wb').write(data[:size // 2])
    elif how == 'short':
        with open(path, 'rb') as f:
            data = f.read()
        open(path, 'wb').write(data[:-1])
    else:
        open(path, 'wb').write(bytes((which * 37 + i * 101) % 251 for i in range(64)))


_WORLD = None


def body(case, rec):
    global _WORLD
    rec.case()
    from vlib.meshdrive import exc_site
    import src.single_layer as slm
    import src.initial_potential as ipm
    from src.single_layer import SingleLayerOperator
    from src.initial_potential import InitialOperator
    from src.initial_mesh import UnitSquareBoundaryRefined
    if _WORLD is None:
        _WORLD = World()
    W = _WORLD
    if not W.twin_ok:
        rec.add('twin_lists_not_identical_generator_gap')
    base = os.environ.get('VERIF_WORK') or os.path.join('/verif', '.work', 'c17.%d' % os.getpid())
    cdir = os.path.join(base, 'cache')
    shutil.rmtree(cdir, ignore_errors=True)
    os.makedirs(cdir, exist_ok=True)
    ops = {}
    m0 = {}

    def SL(name, exact=False):
        exact = bool(exact) and name != 'Circle'
        if (name, exact) not in ops:
            with repo.quiet():
                # the driver keeps one directory per value of the switch ('data' / 'data_exact'): the key does not
                # contain the switch and the property does not ask it to
                sub_dir = os.path.join(cdir, 'exact') if exact else cdir
                os.makedirs(sub_dir, exist_ok=True)
                ops[(name, exact)] = SingleLayerOperator(W.lives[name].mesh, pw_exact=exact, cache_dir=sub_dir)
        return ops[(name, exact)]

    keys = set()
    damaged = False
    hit_after_damage = False
    big_pool = False
    try:
        for n_op, op in enumerate(case['ops']):
            kind = op['op']
            if kind == 'fresh':
                ops.clear()
                m0.clear()
                continue
            if kind == 'damage':
                files = sorted(glob.glob(os.path.join(cdir, '*.npy')) + glob.glob(os.path.join(cdir, 'exact', '*.npy')))
                if not files:
                    continue
                if op['which'] < 0:
                    for f in files:            # crash-point enumeration: every stored file gets this damage class
                        damage_file(f, op['how'], 7)
                else:
                    damage_file(files[op['which'] % len(files)], op['how'], op['which'])
                damaged = True
                rec.cls('damage_' + op['how'])
                continue
            if kind == 'assemble':
                name = op['curve']
                test = W.lists[name][op['test']]
                trial = W.lists[name][op['trial']]
                if not test or not trial:
                    continue
                S = SL(name, op.get('exact'))
                N, M = len(test), len(trial)
                with repo.quiet():
                    # 'all' x 'all' is also requested through the default arguments (None = the mesh's leaves)
                    a_test = None if (op['test'] == 'all' and op['trial'] == 'all' and op['workers'] % 2) else test
                    a_trial = None if (op['trial'] == 'all' and (a_test is None or op['workers'] % 3 == 0)) and op['test'] == 'all' else trial
                    if a_test is None:
                        a_trial = None if op['workers'] % 4 else trial
                    if op['mp']:
                        with repo.pool_shim([slm], op['workers']):
                            mat = S.bilform_matrix(a_test, a_trial, use_mp=True)
                    else:
                        mat = S.bilform_matrix(a_test, a_trial, use_mp=False)
                mat = np.asarray(mat)
                want = np.array([[W.pair_value(S, name, te, tr) for tr in trial] for te in test], dtype=float)
                path = 'inline' if N * M < 100 else ('pool' if op['mp'] else 'serial')
                rec.cls('assemble_' + path)
                rec.add('calls')
                if N * M >= 100:
                    keys.add((name, op['test'], op['trial'], bool(op.get('exact'))))
                    if op['mp'] and op['workers'] >= 2:
                        big_pool = True
                    if damaged:
                        hit_after_damage = True
                if mat.shape != want.shape or not np.array_equal(mat, want):
                    bad = int(np.sum(mat != want)) if mat.shape == want.shape else -1
                    rec.violation('C17/matrix/%s/mismatch' % path,
                                  {'op_index': n_op, 'op': op, 'entries_different': bad, 'shape': list(mat.shape),
                                   'max_abs_diff': float(np.max(np.abs(mat - want))) if mat.shape == want.shape else None}, case)
                    return
            elif kind == 'm0_long':
                # two different lists of 255 elements of one curve that agree in their first and last elements
                if 'long' not in W.lives:
                    lv = Live({'kind': 'param', 'curve': 'UnitSquare', 'ts': [0.0, 1.0], 'xs': None})
                    for _ in range(3):
                        apply_op(lv, ['unif'], cap=10**6)
                    W.lives['long'] = lv
                allv = W.lives['long'].leaves()
                L1 = allv[:100] + allv[101:]
                L2 = allv[:150] + allv[151:]
                with repo.quiet():
                    Ml = InitialOperator(bdr_mesh=W.lives['long'].mesh, u0=lambda xy: 1, initial_mesh=UnitSquareBoundaryRefined, cache_dir=cdir)
                    with repo.pool_shim([ipm], 16):
                        v1 = np.asarray(Ml.linform_vector(elems=L1, use_mp=True), dtype=float)
                        v2 = np.asarray(Ml.linform_vector(elems=L2, use_mp=True), dtype=float)
                    probe = [100, 120, 149]
                    s1 = [float(Ml.linform(L1[i])[0]) for i in probe]
                    s2 = [float(Ml.linform(L2[i])[0]) for i in probe]
                rec.cls('long_lists_255')
                keys.add(('M0long', 1))
                keys.add(('M0long', 2))
                if [v1[i] for i in probe] != s1 or [v2[i] for i in probe] != s2 or not np.array_equal(v1[:100], v2[:100]):
                    rec.violation('C17/vector/long_lists/mismatch', {'op_index': n_op, 'first_list': [[v1[i] for i in probe], s1],
                                                                    'second_list': [[v2[i] for i in probe], s2]}, case)
                    return
                continue
            elif kind == 'sl_large':
                # a matrix above every size threshold (160 x 120 = 19 200 entries): pool assembly, then every class of
                # truncation of the stored file followed by a second request; 240 sampled entries (and the last row and
                # column) are compared with single-pair values, the repeated requests bitwise with the first result
                if 'long' not in W.lives:
                    lv = Live({'kind': 'param', 'curve': 'UnitSquare', 'ts': [0.0, 1.0], 'xs': None})
                    for _ in range(3):
                        apply_op(lv, ['unif'], cap=10**6)
                    W.lives['long'] = lv
                allv = W.lives['long'].leaves()
                test, trial = allv[:160], allv[100:220]
                with repo.quiet():
                    Sl = SingleLayerOperator(W.lives['long'].mesh, cache_dir=cdir)
                    with repo.pool_shim([slm], 16):
                        A0 = np.asarray(Sl.bilform_matrix(test, trial, use_mp=True), dtype=float)
                    idx = [((i * 7919) % 160, (i * 104729) % 120) for i in range(240)] + [(159, j) for j in range(0, 120, 7)] + \
                          [(i, 119) for i in range(0, 160, 11)] + [(159, 119)]
                    for (i, j) in idx:
                        if A0[i, j] != Sl.bilform(trial[j], test[i]):
                            rec.violation('C17/matrix/large/mismatch', {'op_index': n_op, 'entry': [i, j]}, case)
                            return
                    for how in op['hows']:
                        files = sorted(glob.glob(os.path.join(cdir, 'SL_*.npy')))
                        if not files:
                            rec.violation('C17/cache/no_valid_file_after_call', {'op_index': n_op, 'op': op}, case)
                            return
                        for f in files:
                            damage_file(f, how, 3)
                        rec.cls('damage_large_' + how)
                        with repo.pool_shim([slm], 16):
                            A1 = np.asarray(Sl.bilform_matrix(test, trial, use_mp=True), dtype=float)
                            A2 = np.asarray(Sl.bilform_matrix(test, trial, use_mp=True), dtype=float)
                        for nm, Ax in (('after_damage', A1), ('warm_after_damage', A2)):
                            if Ax.shape != A0.shape or not np.array_equal(Ax, A0):
                                rec.violation('C17/matrix/large/%s/mismatch' % nm,
                                              {'op_index': n_op, 'how': how, 'entries_different': int(np.sum(Ax != A0)) if Ax.shape == A0.shape else -1}, case)
                                return
                keys.add(('SLlarge', 1))
                hit_after_damage = True
                continue
            elif kind in ('m0_fault', 'sl_fault'):
                # a fault (exception) in the middle of a computation against the cache directory: whatever it leaves
                # behind must not be served as a result later
                class Fault(Exception):
                    pass
                if kind == 'm0_fault':
                    name = 'UnitSquareBig'
                    lst = W.lists[name]['big']
                    count = {'n': 0}
                    if 'm0_calls' not in W.__dict__:
                        # number of calls of the datum for the whole list (measured once, without a cache)
                        cnt = {'n': 0}

                        def u0_count(xy):
                            cnt['n'] += 1
                            return 1
                        with repo.quiet():
                            Mc = InitialOperator(bdr_mesh=W.lives[name].mesh, u0=u0_count, initial_mesh=UnitSquareBoundaryRefined)
                            vals = Mc.linform_vector(elems=lst, use_mp=False)
                        for e, v in zip(lst, vals):
                            W.m0_single[id(e)] = v
                        W.m0_calls = cnt['n']
                    limit = int(W.m0_calls * op['after'] / 48.0)

                    def u0_faulty(xy):
                        count['n'] += 1
                        if count['n'] > limit:
                            raise Fault()
                        return 1
                    with repo.quiet():
                        Mf = InitialOperator(bdr_mesh=W.lives[name].mesh, u0=u0_faulty, initial_mesh=UnitSquareBoundaryRefined,
                                             cache_dir=cdir)
                        try:
                            Mf.linform_vector(elems=lst, use_mp=False)
                        except Fault:
                            rec.cls('fault_injected_m0')
                        M0n = InitialOperator(bdr_mesh=W.lives[name].mesh, u0=lambda xy: 1, initial_mesh=UnitSquareBoundaryRefined,
                                              cache_dir=cdir)
                        vec = np.asarray(M0n.linform_vector(elems=lst, use_mp=False), dtype=float)
                        for e in lst:
                            if id(e) not in W.m0_single:
                                W.m0_single[id(e)] = M0n.linform(e)[0]
                    want = np.array([W.m0_single[id(e)] for e in lst], dtype=float)
                    keys.add(('M0', 'big'))
                    if vec.shape != want.shape or not np.array_equal(vec, want):
                        rec.violation('C17/vector/after_fault/mismatch', {'op_index': n_op, 'op': op,
                                                                        'entries_different': int(np.sum(vec != want)) if vec.shape == want.shape else -1}, case)
                        return
                else:
                    name = 'UnitSquare'
                    test = W.lists[name]['all']
                    from src.hierarchical_error_estimator import DummyElement
                    base = W.lists[name]['rows']
                    count = {'n': 0}

                    def faulty_gamma(g0):
                        def gm(x):
                            count['n'] += 1
                            if count['n'] > op['after']:
                                raise Fault()
                            return g0(x)
                        return gm
                    trial_f = [DummyElement(e.vertices, faulty_gamma(e.gamma_space)) if j == len(base) - 1 else e for j, e in enumerate(base)]
                    S = SL(name)
                    with repo.quiet():
                        try:
                            S.bilform_matrix(test, trial_f, use_mp=False)
                        except Fault:
                            rec.cls('fault_injected_sl')
                        trial_ok = [DummyElement(e.vertices, e.gamma_space) if j == len(base) - 1 else e for j, e in enumerate(base)]
                        mat = np.asarray(S.bilform_matrix(test, trial_ok, use_mp=False))
                    want = np.array([[W.pair_value(S, name, te, tr) for tr in base] for te in test], dtype=float)
                    keys.add((name, 'all', 'rows_dummy'))
                    if mat.shape != want.shape or not np.array_equal(mat, want):
                        rec.violation('C17/matrix/after_fault/mismatch', {'op_index': n_op, 'op': op}, case)
                        return
                continue
            elif kind == 'm0':
                name = 'UnitSquare'
                lst = W.lists[name][op['lst']]
                if name not in m0:
                    with repo.quiet():
                        m0[name] = InitialOperator(bdr_mesh=W.lives[name].mesh, u0=lambda xy: 1,
                                                   initial_mesh=UnitSquareBoundaryRefined, cache_dir=cdir)
                M0 = m0[name]
                with repo.quiet():
                    if op['mp']:
                        with repo.pool_shim([ipm], op['workers']):
                            vec = M0.linform_vector(elems=lst, use_mp=True)
                    else:
                        vec = M0.linform_vector(elems=lst, use_mp=False)
                    for e in lst:
                        if id(e) not in W.m0_single:
                            W.m0_single[id(e)] = M0.linform(e)[0]
                want = np.array([W.m0_single[id(e)] for e in lst], dtype=float)
                vec = np.asarray(vec, dtype=float)
                rec.cls('linform_vector_' + ('pool' if op['mp'] else 'serial'))
                rec.add('calls')
                keys.add(('M0', op['lst']))
                if damaged:
                    hit_after_damage = True
                if vec.shape != want.shape or not np.array_equal(vec, want):
                    rec.violation('C17/vector/%s/mismatch' % ('pool' if op['mp'] else 'serial'),
                                  {'op_index': n_op, 'op': op, 'got': vec.tolist(), 'element_wise': want.tolist()}, case)
                    return
            # directory invariants after every call
            files = sorted(f for f in glob.glob(os.path.join(cdir, '*')) + glob.glob(os.path.join(cdir, 'exact', '*')) if os.path.isfile(f))
            if len(files) > len(keys):
                rec.cls('more_files_than_distinct_keys')       # observation only: the property does not bound the file count
            result = mat if kind == 'assemble' else vec
            if kind == 'm0' or N * M >= 100:
                ok = False
                for f in files:
                    try:
                        arr = np.load(f)
                        if arr.shape == result.shape and np.array_equal(arr, result):
                            ok = True
                            break
                    except Exception:
                        continue
                if not ok:
                    rec.violation('C17/cache/no_valid_file_after_call', {'op_index': n_op, 'op': op,
                                                                          'files': [os.path.basename(f) for f in files]}, case)
                    return
    except Exception as ex:
        if exc_site(ex) == 'harness':
            raise
        rec.violation('C17/exception/%s/%s' % (exc_site(ex), type(ex).__name__), {'error': repr(ex), 'op_index': n_op, 'op': op}, case)
        return
    finally:
        shutil.rmtree(cdir, ignore_errors=True)
    if hit_after_damage or big_pool:
        rec.nontriv(khash(case))
    if len(rec.samples) < 4 and hit_after_damage:
        rec.sample(case)


def crash_point_cases():
    """complete enumeration: {matrix file, vector file} x every damage class x {serial, pool} for the call after the damage"""
    out = []
    for how in DAMAGE:
        for mp_after in (False, True):
            A = {'op': 'assemble', 'curve': 'UnitSquare', 'test': 'all', 'trial': 'rows', 'mp': False, 'workers': 1}
            A2 = dict(A, mp=mp_after, workers=3)
            M = {'op': 'm0', 'lst': 'small', 'mp': False, 'workers': 1}
            M2 = dict(M, mp=mp_after, workers=2)
            D = {'op': 'damage', 'which': -1, 'how': how}
            out.append({'ops': [A, M, D, A2, M2, {'op': 'fresh'}, A, M]})
    # faults in the middle of a computation (the quadrature of element 35 of 48 / of the last trial column raises)
    out.append({'ops': [{'op': 'm0_long'}]})
    out.append({'ops': [{'op': 'sl_large', 'hows': ['short', 'half']}]})
    out.append({'ops': [{'op': 'sl_large', 'hows': ['header', 'empty']}]})
    # chunk sizes above one that do not divide the number of columns (chunk = M // (16 workers) + 1), few rows
    B = lambda te, tr, w: {'op': 'assemble', 'curve': 'UnitSquareBig', 'test': te, 'trial': tr, 'mp': True, 'workers': w}
    out.append({'ops': [B('r8', 'c17', 1), B('r6', 'c34', 1), {'op': 'fresh'}, B('r6', 'c37', 2)]})
    out.append({'ops': [B('r6', 'c49', 3), B('r3', 'c64', 2), B('r3', 'c49', 1)]})
    # the same for the load vector (chunk = N // (8 workers) + 1): nine elements, one worker
    out.append({'ops': [{'op': 'm0', 'lst': 'nine', 'mp': True, 'workers': 1}, {'op': 'm0', 'lst': 'nine', 'mp': False, 'workers': 1}]})
    out.append({'ops': [{'op': 'm0_fault', 'after': 35}, {'op': 'fresh'}]})
    out.append({'ops': [{'op': 'm0_fault', 'after': 40.5}, {'op': 'fresh'}]})
    out.append({'ops': [{'op': 'sl_fault', 'after': 2}, {'op': 'fresh'}, {'op': 'sl_fault', 'after': 1}]})
    return out


def run(ctx):
    for case in ctx.mine(crash_point_cases()):
        body(case, ctx.rec)
    n = ctx.share(800 if ctx.quick else 6400)
    explore(ctx, ops_strategy(), body, n)


def replay(case):
    rec = Recorder()
    body(case, rec)
    return [(v['bucket'], v['detail']) for v in rec.violations]
