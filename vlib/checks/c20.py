"""C20 -- h-h/2 and hierarchical estimators equal their definitions; prolongation preserves values."""
import numpy as np
from hypothesis import strategies as st

from vlib import repo, gens, pairs
from vlib.common import explore, khash, Recorder
from vlib.meshreal import Live, apply_op
from vlib.checks.c01 import operator
from vlib.geo import geo as get_geo

ID = 'C20'
LEVEL = 'exploration'
RULE = ('closed curve (the four shipped ones and three line/arc curves) x generated (graded) history with aspect guard (<= 40 elements quick, <= 150 thorough) x data '
        'configuration (Dirichlet, MildSingular, initial datum 1 on polygons, and both together) x density (Galerkin '
        'solution, random vector, constant) x serial / pool with 2..4 workers. Oracle: independent recomputation on a '
        'replayed copy of the mesh refined by real bisection (uniform_refine), grandchildren matched to their coarse '
        'leaf geometrically, fine matrix and data from single-pair bilform / single-element linform calls in the order of '
        'the refined mesh (not the estimator\'s), energy norm of fine solution minus piecewise-constant extension (1e-6 '
        'relative); vanishing when the extension solves the fine problem; hierarchical indicators from geometric signs '
        '(later half -, right half -, checkerboard), shared checkerboard, non-negative; Prolongate against geometric '
        'containment on nested meshes. Non-trivial = mesh with hanging nodes and >= 2 time levels and a non-constant '
        'density; distinct by (mesh md5, data, density).')
ASSUMPTIONS = ['single-pair bilform / single-element linform are the building blocks (their correctness is C01 / C08)',
               'numpy.linalg.solve for the fine system; hierarchical numerators compared relative to the sum of the '
               'magnitudes of their contributions (they nearly cancel for Galerkin densities)']


def shards(tier):
    return 16


def cases(max_ops):
    return st.fixed_dictionaries({
        'kind': st.sampled_from(['hh2', 'hh2', 'hier', 'prolong', 'vanish']),
        'spec': pairs.pair_specs(curves=('UnitSquare', 'PiSquare', 'LShape', 'Circle', 'Stadium1', 'Dee', 'Stadium', 'Bessel')),
        'ops': gens.graded_histories(max_ops=max_ops, allow=('t', 'x', 'tx')),
        'more': gens.histories(max_ops=12, allow=('t', 'x', 'tx')),
        'data': st.sampled_from(['dirichlet', 'mild', 'initial', 'both', 'both']),
        'phi': st.sampled_from(['galerkin', 'random', 'const']),
        'rnd': st.lists(st.floats(-1.0, 1.0), min_size=5, max_size=12),
        'mp': st.booleans(), 'workers': st.integers(2, 4), 'exact': st.booleans(),
    })


def build(case, cap):
    spec = dict(case['spec'])
    if spec['curve'] == 'LShape' and spec.get('xs') is None and case['data'] in ('initial', 'both'):
        spec['xs'] = [float(i) for i in range(9)]
    live = Live(spec, min_hx=1e-4)
    from vlib.meshreal import select
    applied = []
    for op in case['ops']:
        if len(live.mesh.leaf_elements) >= cap:
            break
        if op[0] == 't':
            e = select(live, op[1])
            if (e.space_interval[1] - e.space_interval[0])**2 / ((e.time_interval[1] - e.time_interval[0]) / 2) > 32:
                continue
        apply_op(live, op, cap=cap)
        applied.append(op)
    for _ in range(30):
        bad = [e for e in live.mesh.leaf_elements if (e.space_interval[1] - e.space_interval[0])**2 /
               (e.time_interval[1] - e.time_interval[0]) > 32 * (1 + 1e-12)]
        if not bad:
            break
        e = bad[0]
        k = live.skey(e).key
        # recorded as an explicit operation so that the replayed copy is identical
        idx = [i for i, x in enumerate(live.leaves()) if x is e][0]
        op = ['x', ['any', idx]]
        apply_op(live, op, cap=10**9)
        applied.append(op)
    return live, spec, applied


def data_parts(case, dom):
    """(g_linform or None, wants_M0)"""
    d = case['data']
    poly = dom in ('UnitSquare', 'LShape')
    if d in ('initial', 'both') and not poly:
        d = 'dirichlet' if d == 'initial' else 'mild'
    g = None
    if d in ('dirichlet', 'both'):
        g = lambda elems: np.array([e.h_t * e.h_x for e in elems])
    if d == 'mild':
        g = lambda elems: np.array([1 / 3 * e.h_x * (e.time_interval[1]**3 - e.time_interval[0]**3) for e in elems])
    return g, d in ('initial', 'both'), d


def make_M0(live, dom):
    from src.initial_potential import InitialOperator
    from src import initial_mesh as im
    with repo.quiet():
        return InitialOperator(bdr_mesh=live.mesh, u0=lambda xy: 1,
                               initial_mesh=getattr(im, dom + 'BoundaryRefined'))


def containing(live_c, coarse_keys, b):
    """index of the coarse leaf whose box contains box b"""
    for i, c in enumerate(coarse_keys):
        if c.t0 <= b.t0 and b.t1 <= c.t1 and c.x0 <= b.x0 and b.x1 <= c.x1:
            return i
    return None


def body(case, rec, cap):
    rec.case()
    from vlib.meshdrive import exc_site
    import src.single_layer as slm
    import src.initial_potential as ipm
    from src.h_h2_error_estimator import HH2ErrorEstimator
    from src.hierarchical_error_estimator import HierarchicalErrorEstimator
    from src.mesh import Prolongate
    try:
        dom0 = case['spec']['curve']
        _, w0, _ = data_parts(case, dom0)
        if w0 and case['spec'].get('xs') is None and case['kind'] != 'prolong':
            cap = min(cap, 10)          # the load vector costs ~0.2 s per fine element: keep those meshes small
        live, spec, applied = build(case, cap)
    except Exception as ex:
        if exc_site(ex) == 'harness':
            raise
        rec.add('mesh_construction_failed')
        return
    dom = spec['curve']
    elems = live.leaves()
    N = len(elems)
    kind = case['kind']
    cj = {k: v for k, v in case.items()}
    B = lambda c: 'C20/%s/%s' % (kind, c)
    try:
        if kind == 'prolong':
            coarse = list(elems)
            cboxes = [live.skey(e) for e in coarse]
            more = list(case['more'])
            cut = len(more) if case['workers'] % 3 == 0 else len(more) // 2
            for op in more[:cut]:
                apply_op(live, op, cap=4 * cap)
            fine = live.leaves()
            # the nested meshes are snapshots of one refinement history: the mesh may have been refined further
            # after the fine snapshot was taken (and the identity prolongation of an old snapshot is legitimate too)
            for op in more[cut:]:
                apply_op(live, op, cap=4 * cap)
            if case['workers'] % 4 == 1:
                fine = list(coarse)
            vec = np.array([float(case['rnd'][i % len(case['rnd'])]) + i for i in range(len(coarse))])
            with repo.quiet():
                out = np.asarray(Prolongate(vec, coarse, fine), dtype=float)
            want = np.array([vec[containing(live, cboxes, live.skey(f))] for f in fine])
            rec.cls('prolongate')
            if len(fine) > len(coarse):
                rec.nontriv(['prolong', khash(case)])
            if out.shape != want.shape or not np.array_equal(out, want):
                rec.violation(B('mismatch'), {'n_coarse': len(coarse), 'n_fine': len(fine)}, cj)
            return
        g, wants_M0, dname = data_parts(case, dom)
        if wants_M0 and (case['spec'].get('xs') is not None):
            # the load vector needs space intervals that are dyadic pieces of unit side pieces (precondition of C08)
            wants_M0 = False
            dname = {'initial': 'dirichlet', 'both': 'dirichlet'}[dname]
            if g is None:
                g = lambda elems: np.array([e.h_t * e.h_x for e in elems])
        if wants_M0 and N > 20:
            rec.exclude('initial_data_case_too_large')
            return
        exact = case['exact'] and get_geo(dom).polygon
        SL = operator(live, exact)
        M0 = make_M0(live, dom) if wants_M0 else None

        def data_vec(lst, M0obj):
            r = np.zeros(len(lst))
            if g is not None:
                r = r + g(lst)
            if M0obj is not None:
                with repo.quiet():
                    r = r - np.array([float(M0obj.linform(e)[0]) for e in lst])
            return r

        with repo.quiet():
            A = np.array([[float(SL.bilform(tr, te)) for tr in elems] for te in elems])
        rhs = data_vec(elems, M0)
        if case['phi'] == 'galerkin':
            Phi = np.linalg.solve(A, rhs)
        elif case['phi'] == 'random':
            Phi = np.array([float(case['rnd'][i % len(case['rnd'])]) * (1 + (i % 3)) for i in range(N)])
        else:
            Phi = np.full(N, 0.7)
        # ---- independent fine mesh: replay + real uniform refinement
        copy = Live(spec, min_hx=1e-4)
        for op in applied:
            apply_op(copy, op, cap=10**9)
        ckeys = [copy.skey(e).key for e in copy.leaves()]
        if ckeys != [live.skey(e).key for e in elems]:
            raise RuntimeError('replayed copy differs from the original mesh')
        cboxes = [copy.skey(e) for e in copy.leaves()]
        with repo.quiet():
            copy.mesh.uniform_refine()
        fine = copy.leaves()[::-1]                  # a different order than the estimator's
        owner = [containing(copy, cboxes, copy.skey(f)) for f in fine]
        if any(o is None for o in owner) or sorted(owner) != sorted(list(range(N)) * 4):
            raise RuntimeError('grandchildren do not match the coarse leaves')
        SLc = operator(copy, exact)
        M0c = make_M0(copy, dom) if wants_M0 else None
        lv_t = len({e.levels[0] for e in elems})
        hanging = any(len(ed.neighbour_elements()) == 2 for e in elems for ed in e.edges)
        if lv_t >= 2 and hanging and case['phi'] != 'const':
            with repo.quiet():
                rec.nontriv([live.mesh.md5(), dname, case['phi'], kind, exact])
        rec.cls(kind + '|' + dname)
        rec.cls('phi_' + case['phi'])
        rec.cls('curve_' + dom)
        rec.metric('elements', N)
        if kind in ('hh2', 'vanish'):
            with repo.quiet():
                Af = np.array([[float(SLc.bilform(tr, te)) for tr in fine] for te in fine])
            Pf = np.array([Phi[o] for o in owner])
            if kind == 'vanish':
                # data for which the extension already solves the fine problem, handed over in the estimator's order
                def g_v(elist):
                    # map the estimator's virtual quarters to the real grandchildren geometrically
                    idx = []
                    for d in elist:
                        key = None
                        for j, f in enumerate(fine):
                            if tuple(f.time_interval) == tuple(d.time_interval) and tuple(f.space_interval) == tuple(d.space_interval):
                                key = j
                                break
                        idx.append(key)
                    return (Af @ Pf)[idx]
                est_obj = HH2ErrorEstimator(SL=SL, M0=None, g=g_v, use_mp=False)
                with repo.quiet():
                    est = float(est_obj.estimate(elems, Phi))
                bound = 1e-7 * float(np.sqrt(abs(Phi @ A @ Phi)))
                rec.metric('vanishing_over_bound', est / bound if bound > 0 else 0.0)
                if not est <= bound:
                    rec.violation(B('not_vanishing'), {'estimate': est, 'bound': bound}, cj)
                return
            rf = data_vec(fine, M0c)
            sol = np.linalg.solve(Af, rf)
            dvec = sol - Pf
            want = float(np.sqrt(dvec @ Af @ dvec))
            est_obj = HH2ErrorEstimator(SL=SL, M0=M0, g=g, use_mp=case['mp'])
            with repo.quiet():
                if case['mp']:
                    with repo.pool_shim([slm, ipm], case['workers']):
                        est = float(est_obj.estimate(elems, Phi))
                else:
                    est = float(est_obj.estimate(elems, Phi))
            err = abs(est - want) / (abs(want) + 1e-300)
            rec.metric('hh2_relerr', err)
            if abs(est - want) > 1e-6 * abs(want) + 1e-12:
                rec.violation(B('value/%s' % dname), {'estimate': est, 'definition': want, 'rel_err': err, 'pool': case['mp']}, cj)
            return
        # ---- hierarchical
        est_obj = HierarchicalErrorEstimator(SL=SL, M0=M0, g=g)
        with repo.quiet():
            with repo.pool_shim([slm, ipm], case['workers']):
                est = np.asarray(est_obj.estimate(elems, Phi), dtype=float)
        if est.shape != (N, 2):
            rec.violation(B('shape'), {'shape': list(est.shape)}, cj)
            return
        rf = data_vec(fine, M0c)
        worst = 0.0
        for i, ce in enumerate(elems):
            gcs = [j for j, o in enumerate(owner) if o == i]
            cb = cboxes[i]
            tm, xm = (cb.t0 + cb.t1) >> 1, (cb.x0 + cb.x1) >> 1
            later = [copy.skey(fine[j]).t0 >= tm for j in gcs]
            right = [copy.skey(fine[j]).x0 >= xm for j in gcs]
            # <V Phi, 1_gc> with the coarse trial elements of the ORIGINAL mesh (same geometry)
            with repo.quiet():
                vphi = [sum(Phi[k] * float(SL.bilform(elems[k], fine[j])) for k in range(N)) for j in gcs]
                S = np.array([[float(SLc.bilform(fine[b], fine[a])) for b in gcs] for a in gcs])
            ind = []
            delta = []
            for signs in ([-1 if l else 1 for l in later], [-1 if r else 1 for r in right],
                          [(-1 if l else 1) * (-1 if r else 1) for l, r in zip(later, right)]):
                sg = np.array(signs, dtype=float)
                contrib = [sg[q] * (rf[gcs[q]] - vphi[q]) for q in range(4)]
                mag = sum(abs(rf[gcs[q]]) + abs(vphi[q]) for q in range(4))
                num = sum(contrib)
                den = float(sg @ S @ sg)
                ind.append((num, den, 1e-10 * mag))
            e_t, e_x, e_c = [(n * n / d) for n, d, _ in ind]
            want = (e_t + 0.5 * e_c, e_x + 0.5 * e_c)
            tol = []
            for (n1, d1, dl1) in (ind[0], ind[1]):
                n3, d3, dl3 = ind[2]
                tol.append((2 * abs(n1) * dl1 + dl1 * dl1) / d1 + 0.5 * (2 * abs(n3) * dl3 + dl3 * dl3) / d3)
            for c in (0, 1):
                if est[i, c] < 0:
                    rec.violation(B('negative'), {'elem': repr(ce), 'value': float(est[i, c])}, cj)
                    return
                dv = abs(est[i, c] - want[c])
                lim = tol[c] + 1e-9 * abs(want[c]) + 1e-300
                worst = max(worst, dv / lim)
                if dv > lim:
                    rec.violation(B('value/%s/%s' % (dname, 'time' if c == 0 else 'space')),
                                  {'elem': repr(ce), 'indicator': float(est[i, c]), 'definition': float(want[c]), 'tolerance': lim}, cj)
                    return
        rec.metric('hier_diff_over_tol', worst)
    except Exception as ex:
        if exc_site(ex) == 'harness':
            raise
        rec.violation(B('exception/%s/%s' % (exc_site(ex), type(ex).__name__)), {'error': repr(ex)}, cj)
        return
    if len(rec.samples) < 4:
        rec.sample({'kind': kind, 'spec': spec, 'n_ops': len(applied), 'elements': N, 'data': case['data'], 'phi': case['phi']})


def run(ctx):
    cap = 24 if ctx.quick else 60
    n = ctx.share(800 if ctx.quick else 1600)
    explore(ctx, cases(16 if ctx.quick else 40), lambda c, r: body(c, r, cap), n)


def replay(case):
    rec = Recorder()
    body(case, rec, 100)
    return [(v['bucket'], v['detail']) for v in rec.violations]
