"""C14 -- Slobodeckij seminorm quadratures are exact on polynomials and invariant."""
import math
from fractions import Fraction

import numpy as np
from hypothesis import strategies as st

from vlib import repo, slobo
from vlib.common import explore, khash, Recorder

ID = 'C14'
LEVEL = 'exploration'
RULE = ('order N in {1,3,...,21} (23 for H^1/4) x interval [a, a+h], h log-uniform in [1e-3, 1e3], |a| <= 4h x '
        'polynomial of degree <= (N-1)/2 with random rational coefficients in the local variable (scaled or '
        'unscaled) x routine in {H^1/4, H^1/2 flat, H^1/2 with a rigidly placed straight segment, two-piece corner}. '
        'Oracle: exact rational closed forms of the double integrals (H^1/2: ((f(x)-f(y))/(x-y))^2 is a polynomial; '
        'H^1/4: sqrt(h) x rational), 1e-12 relative; laws: >= 0, = 0 on constants, value(lambda f) = lambda^2 value, '
        'translation invariance; corner: independent graded reference with Euclidean distances. Non-trivial = degree '
        '>= 1 and N >= 5; distinct by case.')
ASSUMPTIONS = ['closed forms derived in vlib/slobo.py (Fractions); corner reference: graded tensor Gauss rule, two '
               'resolutions must agree to 1e-8', 'corner pieces with length ratio <= 2 and axis-parallel dyadic '
               'placement (the routine insists on a bit-identical common point)']


def shards(tier):
    return 16


def cases():
    N = st.sampled_from(list(range(1, 22, 2)))
    h = st.one_of(st.floats(math.log(1e-3), math.log(1e3)).map(lambda v: float(math.exp(v))),
                  st.sampled_from([1.0, 1e-3, 1e3, 0.5, 4.0]))
    coef = st.lists(st.tuples(st.integers(-9, 9), st.sampled_from([1, 1, 2, 3, 4])).map(list), min_size=12, max_size=12)
    base = st.fixed_dictionaries({
        'N': N, 'h': h, 'arel': st.one_of(st.floats(-4.0, 3.0), st.sampled_from([-1.0, 0.0, -0.5, -2.0, 1.0])), 'coef': coef, 'scaled': st.booleans(),
        'deg': st.integers(0, 11), 'lam': st.sampled_from([2.0, -3.0, 0.5, 7.25]), 'shift': st.floats(-50.0, 50.0),
        'angle': st.floats(0.0, 6.283), 'px': st.floats(-10, 10), 'py': st.floats(-10, 10),
        'xstart': st.floats(-5, 5), 'other': st.sampled_from([1, 3, 5, 9, 13, 17, 21]),
    })
    k14 = base.map(lambda d: dict(d, kind='h14'))
    k14_23 = base.map(lambda d: dict(d, kind='h14', N=23))
    k12 = base.map(lambda d: dict(d, kind='h12'))
    kg = base.map(lambda d: dict(d, kind='gamma_line'))
    corner = st.fixed_dictionaries({
        'kind': st.just('corner'), 'N': st.sampled_from([17, 21]), 'h1': st.sampled_from([1.0, 0.5, 2.0, 0.25, 0.75]),
        'ratio': st.sampled_from([1.0, 2.0, 0.5, 1.5]), 'orient': st.integers(0, 7),
        'cx': st.integers(-3, 3), 'cy': st.integers(-3, 3), 'a1': st.sampled_from([0.0, 1.0, 2.5, 4.0]),
        'a2off': st.sampled_from([0.0, 0.0, 1.5, -1.0, 'zero', 'seam']), 'other': st.sampled_from([1, 5, 9, 17, 21]),
        'poly': st.lists(st.integers(-4, 4), min_size=10, max_size=10),
    })
    return st.one_of(k14, k12, k12, k14, kg, k14_23, corner)


def poly_of(case):
    N = case['N']
    deg = min(case['deg'], (N - 1) // 2)
    c = [Fraction(n, d) for n, d in case['coef'][:deg + 1]]
    while len(c) > 1 and c[-1] == 0:
        c.pop()
    return c


_SL = {}


def slob(n14, n12):
    from src.norms import Slobodeckij
    key = (n14, n12)
    if key not in _SL:
        with repo.quiet():
            _SL[key] = Slobodeckij(n14, n12)
    return _SL[key]


def body(case, rec):
    rec.case()
    kind = case['kind']
    try:
        if kind == 'corner':
            corner_case(case, rec)
        else:
            poly_case(case, rec)
    except Exception as ex:
        from vlib.meshdrive import exc_site
        if exc_site(ex) == 'harness':
            raise
        rec.violation('C14/%s/exception/%s' % (kind, type(ex).__name__), {'error': repr(ex), 'N': case['N']}, case)


def poly_case(case, rec):
    kind, N = case['kind'], case['N']
    h = float(case['h'])
    a = float(case['arel']) * h
    b = a + h
    h = b - a                       # the interval the routine actually sees
    c = poly_of(case)
    deg = len(c) - 1
    scaled = case['scaled']
    hf = Fraction(h)
    cf = [float(x) for x in c]

    def f_at(x, a0=a, lam=1.0):
        u = (np.asarray(x, dtype=float) - a0)
        if scaled:
            u = u / h
        r = np.zeros_like(u)
        for ck in reversed(cf):
            r = r * u + ck
        return lam * r

    cc = [ck / hf**k for k, ck in enumerate(c)] if scaled else c
    other = case.get('other', N)
    if kind == 'h14':
        S = slob(N, min(other, 21))            # the two orders of the constructor are independent
        exact = float(slobo.exact_h14_over_sqrt_h(cc, hf)) * math.sqrt(h)
        call = lambda fun, lo, hi: float(S.seminorm_h_1_4(fun, lo, hi))
    else:
        S = slob(other, N)
        exact = float(slobo.exact_h12(cc, hf))
        if kind == 'h12':
            call = lambda fun, lo, hi: float(S.seminorm_h_1_2(fun, lo, hi))
        else:
            from src.parametrization import line
            ang = case['angle']
            p0 = np.array([case['px'], case['py']]) * h / 2.5
            p1 = p0 + np.array([math.cos(ang), math.sin(ang)]) * (1.0 + abs(h))
            xs = float(case['xstart']) * h
            gam, _ = line(p0, p1, x_start=xs)
            # the segment is parametrised by arc length from x_start; the interval is placed on it
            def call(fun, lo, hi):
                return float(S.seminorm_h_1_2(lambda xh, g: fun(xh), lo, hi, gam))
    with repo.quiet():
        val = call(f_at, a, b)
    # conditioning: the routines difference f at nearby nodes, so a function with a large mean relative to its
    # oscillation loses digits in any floating-point implementation; the tolerance is scaled by that ratio
    smp = f_at(np.linspace(a, b, 41))
    osc = float(np.max(smp) - np.min(smp))
    cond = max(1.0, float(np.max(np.abs(smp))) / osc) if osc > 0 else 1.0
    if deg >= 1 and osc <= 8 * np.finfo(float).eps * float(np.max(np.abs(smp))):
        # the non-constant part of the polynomial is below the rounding of its constant part on this interval: in
        # floating point the function IS constant there, its computed seminorm is legitimately 0
        rec.exclude('function_constant_to_rounding_on_the_interval')
        return
    if kind == 'gamma_line':
        cond *= 1.0 + (abs(case['px']) + abs(case['py'])) / 2.5 + abs(case['xstart']) + abs(a) / h
    rec.cls('%s_N%d' % (kind, N))
    B = 'C14/%s' % kind
    if deg >= 1 and N >= 5:
        rec.nontriv(khash(case))
    scale = abs(exact)
    if deg == 0:
        if abs(val) > 1e-25 * (1 + max(abs(x) for x in cf)**2):
            rec.violation(B + '/constants', {'value': val, 'N': N}, case)
        return
    err = abs(val - exact) / scale
    rec.metric('relerr_' + kind, err, None)
    rec.metric('relerr_over_cond_' + kind, err / cond, None)
    cond = max(1.0, cond / 10.0)
    if err > 1e-12 * cond:
        rec.violation(B + '/exactness', {'value': val, 'exact': exact, 'rel_err': err, 'N': N, 'degree': deg,
                                         'interval': [a, b]}, case)
        return
    if not val >= 0:
        rec.violation(B + '/negative', {'value': val}, case)
        return
    lam = case['lam']
    with repo.quiet():
        v2 = call(lambda x: f_at(x, lam=lam), a, b)
    if abs(v2 - lam * lam * val) > 1e-12 * cond * abs(v2):
        rec.violation(B + '/scaling', {'value': val, 'scaled_value': v2, 'lambda': lam}, case)
        return
    s = float(case['shift']) * h / 50.0 * 8
    a2 = a + s
    b2 = a2 + h
    if b2 - a2 == h:
        with repo.quiet():
            v3 = call(lambda x: f_at(x, a0=a2), a2, b2)
        tol = 1e-12 * cond * (1 + (abs(s) + abs(a)) / h) * 4
        if abs(v3 - val) > tol * abs(val):
            rec.violation(B + '/translation', {'value': val, 'translated': v3, 'shift': s}, case)
            return
    if len(rec.samples) < 6 and deg >= 2:
        rec.sample(case)


ORIENT = [((1, 0), (0, 1)), ((1, 0), (0, -1)), ((-1, 0), (0, 1)), ((-1, 0), (0, -1)),
          ((0, 1), (1, 0)), ((0, 1), (-1, 0)), ((0, -1), (1, 0)), ((0, -1), (-1, 0))]


def corner_case(case, rec):
    from src.parametrization import line
    N = case['N']
    S = slob(case.get('other', N), N)
    h1 = float(case['h1'])
    h2 = h1 * float(case['ratio'])
    d1, d2 = ORIENT[case['orient'] % 8]
    C = np.array([float(case['cx']), float(case['cy'])])
    A = C - h1 * np.array(d1, dtype=float)
    Bp = C + h2 * np.array(d2, dtype=float)
    a1 = float(case['a1'])
    b1 = a1 + h1
    # the parameter interval of the second piece need not continue that of the first (each piece parametrised from
    # 0, unrelated offsets, or the closing corner of a closed curve: first piece ends at L, second starts at 0)
    off = case.get('a2off', 0.0)
    a2 = b1 if off == 0.0 else (0.0 if off in ('zero', 'seam') else b1 + float(off))
    if off == 'seam':
        a1 = 4.0 - h1
        b1 = 4.0
    b2 = a2 + h2
    g1, _ = line(A, C, x_start=a1)
    g2, _ = line(C, Bp, x_start=a2)
    pc = case['poly']
    mons = [(0, 0), (1, 0), (0, 1), (2, 0), (1, 1), (0, 2), (3, 0), (2, 1), (1, 2), (0, 3)]

    def g(P):
        x, y = P[0] - C[0], P[1] - C[1]
        r = 0.0
        for cft, (i, j) in zip(pc, mons):
            r = r + cft * x**i * y**j
        return r

    def f(xh, gam):
        return g(gam(xh))

    if not (np.all(g1(b1) == g2(a2))):
        rec.exclude('corner_common_point_not_bit_identical')
        return
    with repo.quiet():
        val = float(S.seminorm_h_1_2_pw(f, a1, b1, g1, a2, b2, g2))
    # independent reference with Euclidean distances (own straight-line geometry)
    P1 = lambda s: np.array([A[0] + d1[0] * (np.asarray(s) - a1), A[1] + d1[1] * (np.asarray(s) - a1)])
    P2 = lambda s: np.array([C[0] + d2[0] * (np.asarray(s) - a2), C[1] + d2[1] * (np.asarray(s) - a2)])
    F1 = lambda s: g(P1(s))
    F2 = lambda s: g(P2(s))
    refs = []
    for (ratio, levels, p) in ((0.25, 15, 14), (0.3, 17, 11)):
        r = slobo.ref_double(F1, P1, a1, b1, F1, P1, a1, b1, 'diag', ratio, levels, p)
        r += slobo.ref_double(F2, P2, a2, b2, F2, P2, a2, b2, 'diag', ratio, levels, p)
        r += 2 * slobo.ref_double(F1, P1, a1, b1, F2, P2, a2, b2, [(b1, a2)], ratio, levels, p)
        refs.append(r)
    rec.cls('corner_N%d' % N)
    if refs[0] == 0 or abs(refs[0] - refs[1]) > 1e-8 * abs(refs[0]):
        if all(c == 0 for c in pc[1:]):
            if abs(val) > 1e-25:
                rec.violation('C14/corner/constants', {'value': val}, case)
            return
        rec.inconclusive += 1
        return
    rec.nontriv(khash(case))
    err = abs(val - refs[0]) / abs(refs[0])
    rec.metric('relerr_corner_N%d' % N, err, None)
    tol = 1e-4 if N == 17 else 1e-6
    if err > tol:
        rec.violation('C14/corner/accuracy', {'value': val, 'reference': refs[0], 'rel_err': err, 'N': N}, case)


def run(ctx):
    n = ctx.share(12000 if ctx.quick else 120000)
    explore(ctx, cases(), body, n)


def replay(case):
    rec = Recorder()
    body(case, rec)
    return [(v['bucket'], v['detail']) for v in rec.violations]
