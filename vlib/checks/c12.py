"""C12 -- Galerkin entries respect the symmetries of the kernel and of the curve (metamorphic)."""
import math

import numpy as np
from hypothesis import strategies as st

from vlib import repo, pairs, refint
from vlib.common import explore, khash, Recorder
from vlib.geo import geo as get_geo
from vlib.meshmodel import Box, ONE
from vlib.checks.c01 import operator, intervals

ID = 'C12'
LEVEL = 'exploration'
RULE = ('pairs of dyadic rectangles (T1,X1),(T2,X2) by class (as C01) on UnitSquare, PiSquare, Circle (default and '
        'uniform k-piece grids) and LShape, on time grids [0,1,2,3,4]; the pair and its image under (a) exchange of the '
        'space intervals, (b) time shift by whole roots or dyadic fractions, (c) a curve motion (shift by whole roots = '
        'quarter turn / rotation by 2 pi k/n, reflection x -> L - x) are each realised as coexisting leaves of a really '
        'bisected mesh; cases where either cannot coexist are discarded and counted. Oracle: (a), (b) bit-for-bit '
        'equality; (c) |difference| <= 1e-7 sqrt(D D). Non-trivial = causal pair with significant value whose image '
        'straddles the seam, lies on another side, or whose parameter order is reversed; distinct by (pair, symmetry).')
ASSUMPTIONS = ['metamorphic relation of the code with itself; scale sqrt(D D) from the independent low-order reference',
               'curve motions only on curves that have them: squares (quarter turns, reflection), circle (rotations by '
               'whole roots of a uniform grid, reflection); L-shape only exchange and time shift']


def shards(tier):
    return 16


def specs():
    ts = st.sampled_from([[0.0, 1.0, 2.0, 3.0, 4.0], [0.0, 0.5, 1.0, 1.5, 2.0], [0.0, 0.25, 0.5, 0.75, 1.0]])
    sq = st.builds(lambda c, t: {'kind': 'param', 'curve': c, 'ts': t, 'xs': None}, st.sampled_from(['UnitSquare', 'PiSquare', 'LShape']), ts)

    def circ(n, t):
        L = 2 * math.pi
        xs = [L * k / n for k in range(n)] + [L]
        return {'kind': 'param', 'curve': 'Circle', 'ts': t, 'xs': xs}
    ci = st.builds(circ, st.sampled_from([3, 4, 8, 5]), ts)
    def graded(c, t, e):
        from vlib.gens import curve_breaks
        br = curve_breaks(c)
        xs = []
        for a, b in zip(br[:-1], br[1:]):
            xs += [a, a + (b - a) * e, b - (b - a) * e]
        xs.append(br[-1])
        return {'kind': 'param', 'curve': c, 'ts': t, 'xs': xs, 'period': 3}
    # every side split into [0, e], [e, 1-e], [1-e, 1]: invariant under quarter turns and the reflection
    gr = st.builds(graded, st.sampled_from(['UnitSquare', 'PiSquare']), ts, st.sampled_from([0.25, 0.125, 1 / 16, 1 / 64]))
    # line/arc curves: the stadiums have a half turn (two of their four roots), the Dee only exchange and time shift
    mx = st.builds(lambda c, t: {'kind': 'param', 'curve': c, 'ts': t, 'xs': None, 'period': 2},
                   st.sampled_from(['Stadium', 'Stadium1', 'Dee']), ts)
    # initial time grids with slabs of different length: a time shift then carries a box into a slab in which it has
    # another time level (exchange and time shift only)
    uneq = st.builds(lambda c, t: {'kind': 'param', 'curve': c, 'ts': t, 'xs': None, 'unequal_t': True},
                     st.sampled_from(['UnitSquare', 'PiSquare', 'LShape', 'Circle']),
                     st.sampled_from([[0.0, 1.0, 3.0, 5.0], [0.0, 0.5, 1.5, 2.5], [0.0, 2.0, 3.0, 5.0, 9.0]]))
    return st.one_of(sq, sq, ci, gr, mx, uneq)


def cases():
    def for_spec(spec):
        c = spec['curve']
        scs = [x for x in pairs.SPACE_CLASSES if not (x == 'touch_corner' and c == 'Circle')]
        syms = ['exchange', 'tshift'] + ([] if c in ('LShape', 'Dee') else
                                         ['rot'] if c.startswith('Stadium') else ['rot', 'reflect', 'rot'])
        if spec.get('unequal_t'):
            syms = ['tshift', 'tshift', 'exchange']
        return st.fixed_dictionaries({
            'fam': st.just('target'), 'spec': st.just(spec), 'sc': st.sampled_from(scs),
            'tc': st.sampled_from(['equal', 'touch_after', 'separated', 'overlap']),
            'l1': st.integers(0, 4), 'dl': st.integers(-3, 3), 'pos': st.integers(0, 10**6), 'pos2': st.integers(0, 10**6),
            'g': st.integers(1, 3), 'lw': st.integers(0, 2), 'swap': st.booleans(),
            'm1': st.integers(0, 10), 'dm': st.integers(-2, 3), 'tpos': st.integers(0, 10**6), 'tpos2': st.integers(0, 10**6),
            'tgap': st.integers(1, 6), 'sym': st.sampled_from(syms), 'k': st.integers(1, 7), 'shift_level': st.integers(0, 3),
            'exact': st.booleans(),
        })
    return specs().flatmap(for_spec)


def image(case, probe, A, B):
    """image boxes under the symmetry, or None"""
    sym = case['sym']
    L, T = probe.model.L, probe.model.T
    if sym == 'exchange':
        return (Box(A.t0, A.t1, B.x0, B.x1, A.lt, B.lx), Box(B.t0, B.t1, A.x0, A.x1, B.lt, A.lx))
    if sym == 'tshift' and case['spec'].get('unequal_t'):
        # slabs of different length: shift in real time and look the images up again
        ts = probe.ts
        (a0, a1), _ = probe.real_box(A)
        (b0, b1), _ = probe.real_box(B)

        def to_model(ta, tb):
            for j in range(len(ts) - 1):
                if ts[j] <= ta and tb <= ts[j + 1]:
                    Lr = ts[j + 1] - ts[j]
                    lvl = 0
                    while lvl < 40 and (tb - ta) * (1 << lvl) < Lr:
                        lvl += 1
                    if (tb - ta) * (1 << lvl) != Lr:
                        return None
                    k = (ta - ts[j]) / (tb - ta)
                    if k != int(k):
                        return None
                    step = ONE >> lvl
                    return (j * ONE + int(k) * step, j * ONE + (int(k) + 1) * step, lvl)
            return None
        step = max(a1 - a0, b1 - b0)
        shifts = [m * step for m in range(-12, 13) if m != 0] + [m * 0.5 for m in range(-12, 13) if m != 0]
        cands = []
        for sft in shifts:
            ia, ib = to_model(a0 + sft, a1 + sft), to_model(b0 + sft, b1 + sft)
            if ia is not None and ib is not None:
                cands.append((ia, ib))
        if not cands:
            return None
        ia, ib = cands[case['k'] % len(cands)]
        return (Box(ia[0], ia[1], A.x0, A.x1, ia[2], A.lx), Box(ib[0], ib[1], B.x0, B.x1, ib[2], B.lx))
    if sym == 'tshift':
        unit = ONE >> case['shift_level']
        # the shift must be a multiple of both time lengths so that the images are dyadic boxes again
        step = max(unit, A.t1 - A.t0, B.t1 - B.t0)
        lo = min(A.t0, B.t0)
        hi = max(A.t1, B.t1)
        choices = [s for s in range(-(lo // step) * step, T - hi + 1, step) if s != 0]
        if not choices:
            return None
        s = choices[case['k'] % len(choices)]
        # a box keeps its level only if it stays inside one root: moving across roots is fine (all roots equal)
        def sh(b):
            return Box(b.t0 + s, b.t1 + s, b.x0, b.x1, b.lt, b.lx)
        out = (sh(A), sh(B))
        for b in out:
            if (b.t0 >> 60) != ((b.t1 - 1) >> 60):
                return None
        return out
    if sym == 'rot':
        per = case['spec'].get('period', 1)          # roots per congruent piece of the grid
        n_rot = probe.n_x // per
        s = (1 + case['k'] % (n_rot - 1)) * per * ONE
        if case['spec']['curve'] == 'Circle' and case['shift_level'] > 0:
            # any dyadic rotation of the circle: a multiple of the larger box length (boxes stay dyadic because all
            # roots of the uniform grid are equal)
            unit = max(A.x1 - A.x0, B.x1 - B.x0, ONE >> case['shift_level'])
            s = (1 + case['k'] % 11) * unit

        def ro(b):
            x0 = (b.x0 + s) % L
            return Box(b.t0, b.t1, x0, x0 + (b.x1 - b.x0), b.lt, b.lx)
        out = (ro(A), ro(B))
        for b in out:
            if (b.x0 >> 60) != ((b.x1 - 1) >> 60) or b.x0 % (b.x1 - b.x0):
                return None
        return out
    if sym == 'reflect':
        def rf(b):
            return Box(b.t0, b.t1, L - b.x1, L - b.x0, b.lt, b.lx)
        return (rf(A), rf(B))
    return None


def body(case, rec):
    rec.case()
    from vlib.meshdrive import exc_site
    try:
        probe, A, B, reason = pairs.targets_for(case, max_aspect=4096.0)
        if reason:
            rec.exclude(reason)
            return
        img = image(case, probe, A, B)
        if img is None:
            rec.exclude('image_not_constructible')
            return
        live1, t1, s1, r1 = pairs.realise_boxes(case['spec'], A, B)
        live2, t2, s2, r2 = pairs.realise_boxes(case['spec'], img[0], img[1])
    except Exception as ex:
        if exc_site(ex) == 'harness':
            raise
        rec.add('mesh_construction_failed')
        return
    if r1 or r2:
        rec.exclude('pair_or_image_not_coexisting_leaves')
        return
    g = get_geo(case['spec']['curve'])
    tt, tx = intervals(t1)
    st_, sx = intervals(s1)
    sc, tc, near, info = pairs.classify(g, tt, tx, st_, sx)
    tt2, tx2 = intervals(t2)
    st2, sx2 = intervals(s2)
    sc2, tc2, near2, info2 = pairs.classify(g, tt2, tx2, st2, sx2)
    # no accuracy bound is needed here: the comparison is between two evaluations that must use the same rule in the
    # same relative position, whatever its accuracy (the unchanged tree agrees to 1e-13 also for extreme size ratios)
    if case['sym'] == 'reflect':
        # a reflection exchanges the roles of the two panels in the splitting (first-longer <-> second-longer branch):
        # the two evaluations use different rules, so they agree only as far as each is accurate -- inside the domain
        # of C01 (aspect <= 32, no short panel close to a much longer one)
        if not all(pairs.aspect_ok(e) for e in (t1, s1, t2, s2)) or pairs.close_disjoint_excluded(info, sc) or \
                pairs.close_disjoint_excluded(info2, sc2):
            rec.exclude('reflection_outside_the_accuracy_domain')
            return
    exact = case['exact'] and g.polygon
    cj = dict(case)
    cj['_pair'] = {'test': [tt, tx], 'trial': [st_, sx], 'image_test': [tt2, tx2], 'image_trial': [st2, sx2]}
    try:
        with repo.quiet():
            v1 = float(operator(live1, exact).bilform(s1, t1))
            v2 = float(operator(live2, exact).bilform(s2, t2))
    except Exception as ex:
        if exc_site(ex) == 'harness':
            raise
        rec.violation('C12/exception/%s/%s' % (exc_site(ex), type(ex).__name__), {'error': repr(ex)}, cj)
        return
    sym = case['sym']
    rec.cls('curve_' + g.name)
    rec.cls('%s|%s' % (sym, sc.split('_eq')[0].split('_first')[0].split('_second')[0]))
    scale = (refint.diag(g, tt, tx, 'coarse') * refint.diag(g, st_, sx, 'coarse'))**0.5
    moved = sc != sc2 or info['swap'] != info2['swap'] or g.side_of(*tx) != g.side_of(*tx2)
    if v1 > 1e-6 * scale and (moved or sym in ('exchange', 'tshift')):
        rec.nontriv([case['spec'], tt, tx, st_, sx, sym, tt2, tx2, exact])
    if moved:
        rec.cls('image_changes_branch_or_side')
    if sym in ('exchange', 'tshift'):
        if v1 != v2:
            rec.violation('C12/%s/%s/not_bitwise' % (sym, 'exact' if exact else 'quad'),
                          {'value': v1, 'image_value': v2, 'diff_over_scale': abs(v1 - v2) / scale, 'class': sc}, cj)
            return
    else:
        d = abs(v1 - v2) / scale
        rec.metric('motion_diff_over_sqrtDD', d, cj['_pair'])
        if d > 1e-7:
            rec.violation('C12/%s/%s/%s' % (sym, 'exact' if exact else 'quad', sc2),
                          {'value': v1, 'image_value': v2, 'diff_over_sqrtDD': d, 'class': sc, 'image_class': sc2}, cj)
            return
    if len(rec.samples) < 6 and moved:
        rec.sample(cj)


def run(ctx):
    n = ctx.share(16000 if ctx.quick else 160000)
    explore(ctx, cases(), body, n)


def replay(case):
    rec = Recorder()
    body(case, rec)
    return [(v['bucket'], v['detail']) for v in rec.violations]
