"""C09 -- Sobolev and weighted-L2 indicators equal their definition on every patch."""
import math
from fractions import Fraction

import numpy as np
from hypothesis import strategies as st

from vlib import repo, gens, pairs, slobo
from vlib.common import explore, khash, Recorder
from vlib.geo import geo as get_geo
from vlib.meshreal import Live, apply_op

ID = 'C09'
LEVEL = 'exploration'
RULE = ('closed curve (UnitSquare, PiSquare, LShape, Circle; default, enriched and graded initial grids) x generated '
        'history x every element x residual family x order N in {1,3,...,19} x path. Residuals: (P) polynomials in t and '
        's = x_hat/L of degree <= (N-1)/2, of the form c(t) + s(1-s) q(t, s) so that they are continuous across the seam; '
        '(S) exp(-a t) cos(k . gamma(x_hat) + phi) + b. Oracle: neighbours from the geometric rule of the reference '
        'model, union / intersection intervals, and per patch the Slobodeckij double integral: exact rational closed form '
        'on straight same-side patches (1e-8), independent graded numerical reference on corner, seam and circle '
        'patches (1e-4 at orders 17, 19; pieces of length ratio > 4 excluded and counted); weighted L2 against Gauss '
        'integration of r^2 of sufficient order; estimate_sobolev (element list in creation order, reversed, sorted by (t, x), rotated) serial == pool (1..16 workers, two successive '
        'residuals on one estimator) bitwise, == per-element sums (1e-13); rotation of mesh and residual by whole roots '
        'maps the indicator vector onto itself (1e-8). Non-trivial = element with a seam, corner or hanging-node '
        'neighbour, or N >= 9; distinct by (mesh, element, residual, order).')
ASSUMPTIONS = ['closed forms and graded references of vlib/slobo.py; neighbour rule of vlib/meshmodel.py',
               'orders below 17 are compared only on elements all of whose patches are straight (the property gives a '
               'figure for general patches at order 17 only)']


def shards(tier):
    return 16


# ------------------------------------------------------------------ residuals
def make_residual(spec, L, T):
    """returns (callable residual(t, x_hat, gamma), python function r(t, x_hat, X, Y) on arrays)"""
    if spec['type'] == 'poly':
        A = spec['a']          # A[i][j]: coefficient of t^i * s^j in q ; c[i]: coefficient of t^i in c(t)
        C = spec['c']

        def r(t, xh, X=None, Y=None):
            t = np.asarray(t, dtype=float) / T
            s = np.asarray(xh, dtype=float) / L
            val = 0.0
            for i, ci in enumerate(C):
                val = val + ci * t**i
            q = 0.0
            for i, row in enumerate(A):
                for j, a in enumerate(row):
                    q = q + a * t**i * s**j
            return val + s * (1 - s) * q
        return (lambda t, xh, gamma: r(t, xh)), r

    al, k1, k2, ph, be = spec['alpha'], spec['k1'], spec['k2'], spec['phi'], spec['beta']

    def r2(t, xh, X, Y):
        return np.exp(-al * np.asarray(t, dtype=float)) * np.cos(k1 * X + k2 * Y + ph) + be

    def res(t, xh, gamma):
        P = gamma(np.asarray(xh, dtype=float))
        return r2(t, xh, P[0], P[1])
    return res, r2


def poly_x_coeffs(spec, t, L, T):
    """coefficients (Fractions) in s = x_hat/L of the polynomial r(t, .) at fixed t (Fraction)"""
    tt = Fraction(t) / Fraction(T)
    cs = [Fraction(0)] * 16
    for i, ci in enumerate(spec['c']):
        cs[0] += Fraction(ci) * tt**i
    for i, row in enumerate(spec['a']):
        for j, a in enumerate(row):
            # s(1-s) s^j = s^(j+1) - s^(j+2)
            cs[j + 1] += Fraction(a) * tt**i
            cs[j + 2] -= Fraction(a) * tt**i
    while len(cs) > 1 and cs[-1] == 0:
        cs.pop()
    return cs


def shift_poly(cs, a0):
    """p(s) = sum cs_j s^j  ->  coefficients in u where s = a0 + u"""
    out = [Fraction(0)] * len(cs)
    for j, c in enumerate(cs):
        for m in range(j + 1):
            out[m] += c * math.comb(j, m) * a0**(j - m)
    return out


GL = slobo.gl


def gauss_interval(f, a, b, p=12):
    x, w = GL(p)
    return (b - a) * sum(wi * f(a + (b - a) * xi) for xi, wi in zip(x, w))


# ------------------------------------------------------------------ reference indicators
DOMAIN = {'calls_outside': 0, 'worst': 0.0}


class Ref:
    def __init__(self, live, g, rspec):
        self.live, self.g, self.rspec = live, g, rspec
        self.L, self.T = g.L, live.ts[-1]
        raw, self.rfun = make_residual(rspec, self.L, self.T)
        L = self.L

        def res(t, xh, gamma):
            # the residual is a function on the parameter interval [0, L]: calls outside it are counted
            xa = np.asarray(xh, dtype=float)
            if xa.size and (xa.min() < 0 or xa.max() > L * (1 + 1e-14)):
                DOMAIN['calls_outside'] += 1
                DOMAIN['worst'] = max(DOMAIN['worst'], float(xa.max()) / L, -float(xa.min()) / L)
            return raw(t, xh, gamma)
        self.res = res

    def F(self, t, side):
        g = self.g
        return lambda s: self.rfun(t, np.mod(s, self.L) if g.circle else s, *g.point(side, s))

    def P(self, side):
        return lambda s: self.g.point(side, s)

    def h12_patch(self, t, left, right):
        """|r(t, .)|^2_{H^1/2} on the union patch; left/right = (x0, x1) intervals (right may be None)
        returns (value, kind)"""
        g, L = self.g, self.L
        if right is None:
            a, b = left
            sa = g.side_of(a, b)
            if not g.circle and self.rspec['type'] == 'poly':
                return self._exact_h12(t, a, b), 'straight'
            return slobo.ref_double(self.F(t, sa), self.P(sa), a, b, self.F(t, sa), self.P(sa), a, b, 'diag'), \
                ('arc' if g.circle else 'straight_numeric')
        a, m1 = left
        m2, b = right
        seam = m1 == L and m2 == 0
        s1, s2 = g.side_of(a, m1), g.side_of(m2, b)
        if g.circle:
            # periodic parametrisation: the patch is [a, m1 + (b - m2)] (through the seam when seam)
            hi = m1 + (b - m2)
            return slobo.ref_double(self.F(t, 0), self.P(0), a, hi, self.F(t, 0), self.P(0), a, hi, 'diag'), \
                ('arc_seam' if seam else 'arc')
        if s1 == s2 and not seam:
            if self.rspec['type'] == 'poly':
                return self._exact_h12(t, a, b), 'straight'
            return slobo.ref_double(self.F(t, s1), self.P(s1), a, b, self.F(t, s1), self.P(s1), a, b, 'diag'), 'straight_numeric'
        # two straight pieces meeting in a corner (possibly the seam corner)
        F1, F2, P1, P2 = self.F(t, s1), self.F(t, s2), self.P(s1), self.P(s2)
        v = slobo.ref_double(F1, P1, a, m1, F1, P1, a, m1, 'diag')
        v += slobo.ref_double(F2, P2, m2, b, F2, P2, m2, b, 'diag')
        v += 2 * slobo.ref_double(F1, P1, a, m1, F2, P2, m2, b, [(m1, m2)])
        return v, ('corner_seam' if seam else 'corner')

    def _exact_h12(self, t, a, b):
        cs = poly_x_coeffs(self.rspec, t, self.L, self.T)
        Lf = Fraction(self.L)
        cu = shift_poly(cs, Fraction(a) / Lf)            # polynomial in u = (x_hat - a)/L
        h = (Fraction(b) - Fraction(a)) / Lf
        return float(slobo.exact_h12(cu, h))              # H^1/2 seminorm is invariant under scaling of the variable

    def h14_strip(self, x, t0, t1):
        """|r(., x)|^2_{H^1/4(t0, t1)} numerically (smooth substitution u = v^2 (s - t0))"""
        g = self.g
        side = g.sides_at(x)[0]
        Pt = g.point(side, x)
        f = lambda tt: self.rfun(tt, x, Pt[0], Pt[1])
        xs, ws = GL(24)
        tot = 0.0
        for wq, wi in zip(xs, ws):
            # s = t0 + (t1 - t0) w^2 removes the (s - t0)^(3/2) behaviour of the inner integral
            s = t0 + (t1 - t0) * wq * wq
            jac = 2 * wq * (t1 - t0)
            Ls = s - t0
            v, wv = GL(24)
            u = v * v * Ls
            um = np.maximum(u, 1e-300)
            q = (f(np.full_like(u, s)) - f(s - u)) / um
            tot += wi * jac * float(np.sum(wv * q * q * np.sqrt(um) * 2 * v * Ls))
        return 2 * tot


def neighbours_space(live, b):
    """(model) neighbours across the two vertical edges: adjacent in space, overlapping in time"""
    m = live.model
    return m.neighbours_edge(b, 1) + m.neighbours_edge(b, 3)


def neighbours_time(live, b):
    m = live.model
    return m.neighbours_edge(b, 0) + m.neighbours_edge(b, 2)


def reference_indicators(ref, live, e, want_numeric, rec):
    """-> ((time_ind, space_ind) or None, kinds, excluded)"""
    g = ref.g
    b = live.skey(e)
    byk = live.leaf_by_key()
    (t0, t1), (x0, x1) = (tuple(map(float, e.time_interval)), tuple(map(float, e.space_interval)))
    kinds = set()
    space = 0.0
    for nb in [None] + neighbours_space(live, b):
        if nb is None:
            ta, tb = t0, t1
            left, right = (x0, x1), None
        else:
            o = byk[nb.key]
            ot, ox = tuple(map(float, o.time_interval)), tuple(map(float, o.space_interval))
            ta, tb = max(t0, ot[0]), min(t1, ot[1])
            if nb.x0 == b.x1 or (live.glued and b.x1 == live.model.L and nb.x0 == 0 and not nb.x1 == b.x0):
                left, right = (x0, x1), ox
            else:
                left, right = ox, (x0, x1)
            if live.n_x == 1 and live.glued and nb.key == b.key:
                continue
            h1, h2 = left[1] - left[0], right[1] - right[0]
            if h1 + h2 > 0.5 * g.L * (1 + 1e-9):
                return None, kinds, 'union_patch_longer_than_half_the_curve'
            if not g.circle and (g.side_of(*left) != g.side_of(*right) or (left[1] == g.L and right[0] == 0)):
                if max(h1, h2) / min(h1, h2) > 4 * (1 + 1e-9):
                    return None, kinds, 'corner_patch_ratio_above_4'
        vals = []
        nq = 12 if (ref.rspec['type'] == 'poly') else 8
        for tq in [ta + (tb - ta) * xi for xi in GL(nq)[0]]:
            v, kind = ref.h12_patch(tq, left, right)
            kinds.add(kind)
            vals.append(v)
        space += (tb - ta) * float(np.dot(GL(nq)[1], vals))
    timei = 0.0
    for nb in [None] + neighbours_time(live, b):
        if nb is None:
            xa, xb, ta, tb = x0, x1, t0, t1
        else:
            o = byk[nb.key]
            ot, ox = tuple(map(float, o.time_interval)), tuple(map(float, o.space_interval))
            xa, xb = max(x0, ox[0]), min(x1, ox[1])
            ta, tb = min(t0, ot[0]), max(t1, ot[1])
        if ref.rspec['type'] == 'poly':
            vals = []
            for xq in [xa + (xb - xa) * xi for xi in GL(12)[0]]:
                # polynomial in t at fixed x: exact closed form
                cs = poly_t_coeffs(ref.rspec, xq, ref.L, ref.T)
                cu = shift_poly(cs, Fraction(ta) / Fraction(ref.T))
                h = (Fraction(tb) - Fraction(ta)) / Fraction(ref.T)
                # H^1/4 seminorm scales like (length)^(1/2): computed in the scaled variable tau = t / T
                vals.append(float(slobo.exact_h14_over_sqrt_h(cu, h)) * math.sqrt(float(h)) * math.sqrt(ref.T))
            timei += (xb - xa) * float(np.dot(GL(12)[1], vals))
        else:
            vals = [ref.h14_strip(xq, ta, tb) for xq in [xa + (xb - xa) * xi for xi in GL(12)[0]]]
            timei += (xb - xa) * float(np.dot(GL(12)[1], vals))
    return (timei, space), kinds, None


def poly_t_coeffs(spec, x, L, T):
    s = Fraction(x) / Fraction(L)
    n = max(len(spec['c']), len(spec['a']))
    cs = [Fraction(0)] * n
    for i, ci in enumerate(spec['c']):
        cs[i] += Fraction(ci)
    for i, row in enumerate(spec['a']):
        for j, a in enumerate(row):
            cs[i] += Fraction(a) * s**j * s * (1 - s)
    while len(cs) > 1 and cs[-1] == 0:
        cs.pop()
    return cs


# ------------------------------------------------------------------ cases
def residuals(N):
    deg = (N - 1) // 2
    dq = max(0, deg - 2)
    small = st.integers(-4, 4).map(float)
    poly = st.builds(lambda c, a: {'type': 'poly', 'c': c[:deg + 1], 'a': ([row[:dq + 1] for row in a[:deg + 1]] if deg >= 2 else [])},
                     st.lists(small, min_size=10, max_size=10),
                     st.lists(st.lists(small, min_size=10, max_size=10), min_size=10, max_size=10))
    smooth = st.builds(lambda al, k1, k2, ph, be: {'type': 'smooth', 'alpha': al, 'k1': k1, 'k2': k2, 'phi': ph, 'beta': be},
                       st.floats(0.0, 2.0), st.floats(-2.0, 2.0), st.floats(-2.0, 2.0), st.floats(0.0, 6.0), st.floats(-1.0, 1.0))
    return poly, smooth


def cases(max_ops):
    def for_N(N):
        poly, smooth = residuals(N)
        fam = st.one_of(poly, poly, smooth) if N >= 17 else poly
        return st.fixed_dictionaries({
            'kind': st.sampled_from(['value', 'value', 'value', 'paths', 'symmetry']),
            'spec': pairs.pair_specs(curves=('UnitSquare', 'PiSquare', 'LShape', 'Circle', 'CircleGuarded', 'Circle2')),
            'ops': gens.graded_histories(max_ops=max_ops, allow=('t', 'x', 'tx')),
            'N': st.just(N), 'res': fam, 'res2': poly, 'ei': st.integers(0, 10**6), 'workers': st.integers(1, 16),
            'rot': st.integers(1, 7),
        })
    return st.sampled_from([1, 3, 5, 7, 9, 11, 13, 15, 17, 17, 17, 19, 19]).flatmap(for_N)


def orders_for(N, bump):
    """(weighted L2, outer, time seminorm, space seminorm): independent orders; with bump == 0 the scalar form N"""
    if not bump:
        return (N, N, N, N)
    ups = [(bump >> (2 * k)) & 3 for k in range(4)]
    if bump % 5 == 0:
        # one of the two seminorm orders much lower than the other (the exactness of each indicator depends on its own)
        lo = [3, 1, 5][bump % 3]
        return (N, N, lo, N) if bump % 2 else (N, N, N, lo)
    return tuple(min(19, N + 2 * u) for u in ups)


def estimator(live, N, bump=0):
    from src.error_estimator import ErrorEstimator
    with repo.quiet():
        return ErrorEstimator(live.mesh, N_poly=orders_for(N, bump) if bump else N)


def clip_residual(spec, orders):
    """polynomial residual restricted to the degrees for which all four orders are exact:
    deg_t <= (N_time - 1)/2, deg_x <= (N_space - 1)/2, and 2 deg <= outer and weighted-L2 orders"""
    if spec['type'] != 'poly':
        return spec
    a_, b_, c_, d_ = orders
    deg_t = min((c_ - 1) // 2, b_ // 2, a_ // 2)
    deg_x = min((d_ - 1) // 2, b_ // 2, a_ // 2)
    cc = spec['c'][:deg_t + 1]
    aa = [row[:max(0, deg_x - 2 + 1)] for row in spec['a'][:deg_t + 1]] if deg_x >= 2 else []
    return {'type': 'poly', 'c': cc, 'a': aa}


def body(case, rec, cap):
    DOMAIN['calls_outside'] = 0
    DOMAIN['worst'] = 0.0
    nv = len(rec.violations)
    _body(case, rec, cap)
    if DOMAIN['calls_outside'] and len(rec.violations) == nv:
        rec.violation('C09/%s/residual_called_outside_the_parameter_interval' % case['kind'],
                      {'calls': DOMAIN['calls_outside'], 'worst_x_hat_over_L': DOMAIN['worst']}, dict(case))


def _body(case, rec, cap):
    rec.case()
    from vlib.meshdrive import exc_site
    import src.error_estimator as eem
    try:
        live = Live(case['spec'], min_hx=1e-4)
        for op in case['ops']:
            if len(live.mesh.leaf_elements) >= cap:
                break
            apply_op(live, op, cap=cap)
    except Exception as ex:
        if exc_site(ex) == 'harness':
            raise
        rec.add('mesh_construction_failed')
        return
    g = get_geo(case['spec']['curve'])
    N = case['N']
    kind = case['kind']
    elems = live.leaves()
    cj = dict(case)
    B = lambda c: 'C09/%s/%s' % (kind, c)
    try:
        bump = (case['rot'] * 37 + (case['ei'] // 2) * 11) % 256 if case['ei'] % 2 else 0
        EE = estimator(live, N, bump)
        case = dict(case, res=clip_residual(case['res'], orders_for(N, bump)), res2=clip_residual(case['res2'], orders_for(N, bump)))
        ref = Ref(live, g, case['res'])
        residual = ref.res
        if kind == 'value':
            cand = elems
            if N < 17 or case['res']['type'] == 'poly':
                # below order 17 only straight same-side patches are compared: choose among such elements
                def straight(el):
                    if g.circle:
                        return False
                    bb = live.skey(el)
                    sd = g.side_of(*map(float, el.space_interval))
                    for nb in neighbours_space(live, bb):
                        o = live.leaf_by_key()[nb.key]
                        if g.side_of(*map(float, o.space_interval)) != sd or (bb.x1 == live.model.L and nb.x0 == 0) \
                                or (nb.x1 == live.model.L and bb.x0 == 0):
                            return False
                    return True
                st_el = [el for el in elems if straight(el)]
                if N < 17 and st_el:
                    cand = st_el
                elif N >= 17 and st_el and case['ei'] % 3 == 0:
                    cand = st_el
            if N >= 17 and case['ei'] % 2 == 1:
                # bias towards the closing seam (its patches select the wrapped / two-piece variants)
                seam = [el for el in elems if el.space_interval[0] == 0 or float(el.space_interval[1]) == g.L]
                if seam:
                    cand = seam
            e = cand[case['ei'] % len(cand)]
            if case['res']['type'] == 'smooth':
                # the figure of the property (1e-4 at order 17) is for residuals resolved by the rule on the patch:
                # the wave numbers are scaled so that |k| x (longest union patch of this element) <= 3
                bb = live.skey(e)
                lens = [float(e.space_interval[1] - e.space_interval[0])]
                for nb in neighbours_space(live, bb):
                    o = live.leaf_by_key()[nb.key]
                    lens.append(lens[0] + float(o.space_interval[1] - o.space_interval[0]))
                kmax = max(abs(case['res']['k1']), abs(case['res']['k2']), 1e-9)
                scale = min(1.0, 3.0 / (kmax * max(lens)))
                rs = dict(case['res'], k1=case['res']['k1'] * scale, k2=case['res']['k2'] * scale)
                ref = Ref(live, g, rs)
                residual = ref.res
            rf, kinds, excl = reference_indicators(ref, live, e, True, rec)
            if excl:
                rec.exclude(excl)
                return
            numeric = any(k != 'straight' for k in kinds) or case['res']['type'] != 'poly'
            if 'arc_seam' in kinds and case['res']['type'] == 'poly':
                # a polynomial in x_hat has a kink at x_hat = 0 ~ L, i.e. inside a smooth arc patch: not a smooth residual
                rec.exclude('polynomial_in_x_hat_is_kinked_inside_a_seam_arc_patch')
                return
            if numeric and min(orders_for(N, bump)[1:]) < 17:
                rec.exclude('numeric_patch_below_order_17')
                return
            with repo.quiet():
                sp, _ = EE.sobolev_space(e, residual)
                ti, _ = EE.sobolev_time(e, residual)
                wl = EE.weighted_l2(e, residual)
            tol = 1e-4 if numeric else 1e-8
            for name, got, want in (('time', float(ti), rf[0]), ('space', float(sp), rf[1])):
                scale = abs(want) + 1e-14
                err = abs(got - want) / scale
                rec.metric('relerr_%s_%s' % (name, 'numeric' if numeric else 'exact'), err if want > 1e-12 else 0.0,
                           {'elem': repr(e), 'res': case['res'], 'N': N, 'curve': case['spec']['curve'], 'kinds': sorted(kinds)})
                if abs(got - want) > tol * abs(want) + 1e-13:
                    rec.violation(B('%s/%s' % (name, '+'.join(sorted(kinds)))), {'indicator': got, 'definition': want, 'rel_err': err,
                                                                                 'N': N, 'elem': repr(e)}, cj)
                    return
            # weighted L2
            (t0, t1), (x0, x1) = tuple(map(float, e.time_interval)), tuple(map(float, e.space_interval))
            side = g.side_of(x0, x1)
            def r2(t, x):
                Pp = g.point(side, np.array([x]))
                return float(np.ravel(ref.rfun(np.array([t]), np.array([x]), Pp[0], Pp[1]))[0])**2
            I = gauss_interval(lambda t: gauss_interval(lambda x: r2(t, x), x0, x1, 14), t0, t1, 14)
            if case['res']['type'] == 'poly' or N >= 17:
                w_t, w_x = I / math.sqrt(t1 - t0), I / (x1 - x0)
                tl = 1e-9 if case['res']['type'] == 'poly' else 1e-6
                if abs(wl[0] - w_t) > tl * abs(w_t) + 1e-14 or abs(wl[1] - w_x) > tl * abs(w_x) + 1e-14:
                    rec.violation(B('weighted_l2'), {'got': [float(wl[0]), float(wl[1])], 'definition': [w_t, w_x]}, cj)
                    return
            for k in kinds:
                rec.cls('patch_' + k)
            rec.cls('N_%d' % N)
            rec.cls('res_' + case['res']['type'])
            b = live.skey(e)
            hanging = any(len(live.model.neighbours_edge(b, k)) == 2 for k in range(4))
            if hanging or N >= 9 or any(k != 'straight' for k in kinds):
                rec.nontriv([case['spec'], case['ops'], repr(e), case['res'], N])
        elif kind == 'paths':
            ref2 = Ref(live, g, case['res2'])
            # the element list may be handed over in any order
            order = ['creation', 'reversed', 'by_t_x', 'rotated'][case['ei'] % 4]
            if order == 'reversed':
                elems = elems[::-1]
            elif order == 'by_t_x':
                elems = sorted(elems, key=lambda e: (e.time_interval[0], e.space_interval[0], e.time_interval[1]))
            elif order == 'rotated':
                k0 = max(1, len(elems) // 3)
                elems = elems[k0:] + elems[:k0]
            rec.cls('paths_order_' + order)
            with repo.quiet():
                ser1 = np.asarray(EE.estimate_sobolev(elems, residual, use_mp=False), dtype=float)
                ser2 = np.asarray(EE.estimate_sobolev(elems, ref2.res, use_mp=False), dtype=float)
                with repo.pool_shim([eem], case['workers']):
                    par1 = np.asarray(EE.estimate_sobolev(elems, residual, use_mp=True), dtype=float)
                    par2 = np.asarray(EE.estimate_sobolev(elems, ref2.res, use_mp=True), dtype=float)
                    l2s = np.asarray(EE.estimate_weighted_l2(elems, residual, use_mp=False), dtype=float)
                    l2p = np.asarray(EE.estimate_weighted_l2(elems, residual, use_mp=True), dtype=float)
                direct = np.array([[float(EE.sobolev_time(e, residual)[0]), float(EE.sobolev_space(e, residual)[0])] for e in elems])
            if case['workers'] % 2 == 0:
                # two estimators with different order tuples (whose digits concatenate alike) share a cache directory:
                # the second must not be served the first one's numbers
                import os, shutil
                from src.error_estimator import ErrorEstimator
                cdir = os.path.join(os.environ.get('VERIF_WORK') or '/verif/.work', 'c09cache.%d' % os.getpid())
                shutil.rmtree(cdir, ignore_errors=True)
                os.makedirs(cdir, exist_ok=True)
                try:
                    cj2 = clip_residual(case['res'], (5, 1, 5, 5))
                    r2 = Ref(live, g, cj2).res
                    with repo.quiet():
                        E1 = ErrorEstimator(live.mesh, N_poly=(5, 1, 15, 5), cache_dir=cdir)
                        E2 = ErrorEstimator(live.mesh, N_poly=(5, 11, 5, 5), cache_dir=cdir)
                        E3 = ErrorEstimator(live.mesh, N_poly=(5, 11, 5, 5))
                        E1.estimate_sobolev(elems, r2, use_mp=False)
                        got = np.asarray(E2.estimate_sobolev(elems, r2, use_mp=False), dtype=float)
                        want = np.asarray(E3.estimate_sobolev(elems, r2, use_mp=False), dtype=float)
                    if not np.array_equal(got, want):
                        rec.violation(B('cache_shared_between_order_tuples'), {'max_abs_diff': float(np.max(np.abs(got - want)))}, cj)
                        return
                    # a second request is answered from the cache: the stored numbers are the indicators, to the accuracy
                    # the property states for them (1e-8)
                    with repo.quiet():
                        hit = np.asarray(E2.estimate_sobolev(elems, r2, use_mp=False), dtype=float)
                    if hit.shape != want.shape or float(np.max(np.abs(hit - want))) > 1e-9 * float(np.max(np.abs(want))):
                        rec.violation(B('cache_hit_differs_from_computed_values'),
                                      {'max_rel_diff': float(np.max(np.abs(hit - want)) / np.max(np.abs(want))) if hit.shape == want.shape else 'shape'}, cj)
                        return
                    rec.cls('paths_cache_two_tuples')
                finally:
                    shutil.rmtree(cdir, ignore_errors=True)
            rec.cls('paths_workers_%d' % min(case['workers'], 4))
            rec.nontriv(['paths', case['spec'], case['ops'], case['res'], case['res2'], N, case['workers']])
            if not np.array_equal(ser1, par1) or not np.array_equal(ser2, par2):
                rec.violation(B('pool_vs_serial'), {'first_call_equal': bool(np.array_equal(ser1, par1)),
                                                     'second_call_equal': bool(np.array_equal(ser2, par2))}, cj)
                return
            if not np.array_equal(l2s, l2p):
                rec.violation(B('pool_vs_serial_l2'), {}, cj)
                return
            if ser1.shape != direct.shape or np.max(np.abs(ser1 - direct) / (np.abs(direct) + 1e-300)) > 1e-13 and \
                    np.max(np.abs(ser1 - direct)) > 1e-13 * np.max(np.abs(direct)):
                rec.violation(B('assembled_vs_per_element'), {'max_abs_diff': float(np.max(np.abs(ser1 - direct)))}, cj)
                return
        else:
            # symmetry: rotate mesh and residual by whole roots (squares with default grid, circle with uniform grid)
            name = case['spec']['curve']
            if name == 'LShape' or case['spec'].get('xs') is not None or case['res']['type'] != 'smooth':
                rec.exclude('no_rigid_symmetry_for_this_case')
                return
            from vlib.meshmodel import ONE
            r_roots = 1 + case['rot'] % (live.n_x - 1) if live.n_x > 1 else 0
            if r_roots == 0:
                rec.exclude('no_rigid_symmetry_for_this_case')
                return
            ang = 2 * math.pi * r_roots / live.n_x
            # image mesh: same history with every box shifted by r_roots roots
            shift = r_roots * ONE
            from vlib.pairs import mesh_with
            from vlib.meshmodel import Box
            targets = []
            for bx in live.model.leaves.values():
                x0 = (bx.x0 + shift) % live.model.L
                targets.append(Box(bx.t0, bx.t1, x0, x0 + (bx.x1 - bx.x0), bx.lt, bx.lx))
            img, ok = mesh_with(case['spec'], targets)
            if not ok or len(img.model.leaves) != len(live.model.leaves):
                rec.exclude('image_mesh_not_reachable')
                return
            ca, sa = math.cos(ang), math.sin(ang)
            cx = cy = 0.0
            if not g.circle:
                cx = cy = 0.5 * (g.breaks[1] - g.breaks[0])
            sp = case['res']

            def rot_res(t, xh, gamma):
                P = gamma(np.asarray(xh, dtype=float))
                X, Y = P[0] - cx, P[1] - cy
                # rotate the point back by the angle and evaluate the original residual there
                Xo, Yo = ca * X + sa * Y + cx, -sa * X + ca * Y + cy
                return ref.rfun(t, xh, Xo, Yo)
            EE2 = estimator(img, N, bump)
            with repo.quiet():
                v1 = np.asarray(EE.estimate_sobolev(elems, residual, use_mp=False), dtype=float)
                ie = img.leaves()
                v2 = np.asarray(EE2.estimate_sobolev(ie, rot_res, use_mp=False), dtype=float)
            k1 = {live.skey(e).key: v1[i] for i, e in enumerate(elems)}
            worst = 0.0
            for i, e in enumerate(ie):
                bx = img.skey(e)
                x0 = (bx.x0 - shift) % live.model.L
                key = (bx.t0, bx.t1, x0, x0 + (bx.x1 - bx.x0))
                d = np.max(np.abs(k1[key] - v2[i]) / (np.abs(k1[key]) + 1e-14))
                worst = max(worst, float(d))
            rec.cls('symmetry_' + name)
            rec.metric('symmetry_defect', worst)
            rec.nontriv(['sym', case['spec'], case['ops'], sp, N, r_roots])
            if worst > 1e-8:
                rec.violation(B('rotation'), {'max_rel_defect': worst, 'roots': r_roots}, cj)
                return
    except Exception as ex:
        if exc_site(ex) == 'harness':
            raise
        rec.violation(B('exception/%s/%s' % (exc_site(ex), type(ex).__name__)), {'error': repr(ex)}, cj)
        return
    if len(rec.samples) < 4:
        rec.sample({k: v for k, v in case.items() if k != 'res2'})


def run(ctx):
    n = ctx.share(320 if ctx.quick else 12000)
    explore(ctx, cases(14 if ctx.quick else 30), lambda c, r: body(c, r, 40 if ctx.quick else 120), n)


def replay(case):
    rec = Recorder()
    body(case, rec, 120)
    return [(v['bucket'], v['detail']) for v in rec.violations]
