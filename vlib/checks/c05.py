"""C05 -- every tabulated quadrature rule is exact for its advertised class.

Finite domain, enumerated completely: every key of every if/elif table (found by
parsing the source with ast) x every degree of the advertised class.  Oracle:
closed-form moments at 80 digits (mpmath), on the literal text of the source and
on the doubles returned by the functions.
"""
import ast
import math
import os

import mpmath as mp

from vlib import repo

ID = 'C05'
LEVEL = 'exploration'
EXHAUSTIVE = True
RULE = ('complete enumeration: every key of the seven rule tables (parsed from the source) x every '
        'advertised moment (x^k, x^k log x, x^k log(1-x), x^k sqrt x, x^k/sqrt x, x^k against the weight) '
        'x {literal text at 80 digits, returned doubles}; plus every exported key pair and every scheme '
        'constructor of quadrature.py for every degree mapping to a key. A (rule, moment, clause) triple is '
        'one evaluation; all are non-trivial; distinct by (function, key, moment, clause).')
ASSUMPTIONS = ['mpmath arithmetic at 80 digits and the closed forms 1/(k+1), -1/(k+1)^2, -H_{k+1}/(k+1), '
               '1/(k+3/2), 1/(k+1/2), 1/(k+2) of the moments',
               'the advertised class of a rule is the one in its docstring (gauss_log key N: N+1 nodes, '
               'degrees <= 2N, the two degrees the scheme constructor maps to the key)']

mp.mp.dps = 80

FUNCS = ['log_quadrature_rule', 'log_log_quadrature_rule', 'sqrt_quadrature_rule', 'sqrtinv_quadrature_rule',
         'gauss_sqrtinv_quadrature_rule', 'gauss_x_quadrature_rule', 'gauss_log_quadrature_rule']
LISTS = {'LOG_QUAD_RULES': 'log_quadrature_rule', 'LOG_LOG_QUAD_RULES': 'log_log_quadrature_rule',
         'SQRT_QUAD_RULES': 'sqrt_quadrature_rule', 'SQRTINV_QUAD_RULES': 'sqrtinv_quadrature_rule'}


def shards(tier):
    return 1 if tier == 'quick' else 8


def harmonic(n):
    return mp.fsum(mp.mpf(1) / j for j in range(1, n + 1))


def moments(func, key):
    """list of (label, weight-function f(x mpf)->mpf, exact mpf)"""
    out = []
    if func in ('log_quadrature_rule', 'log_log_quadrature_rule', 'sqrt_quadrature_rule',
                'sqrtinv_quadrature_rule'):
        n_poly, n_sing = key
        for k in range(0, n_poly + 1):
            out.append(('x^%d' % k, (lambda x, k=k: x**k), mp.mpf(1) / (k + 1)))
        for k in range(0, n_sing + 1):
            if func in ('log_quadrature_rule', 'log_log_quadrature_rule'):
                out.append(('x^%d*log(x)' % k, (lambda x, k=k: x**k * mp.log(x)), -mp.mpf(1) / (k + 1)**2))
            if func == 'log_log_quadrature_rule':
                out.append(('x^%d*log(1-x)' % k, (lambda x, k=k: x**k * mp.log(1 - x)), -harmonic(k + 1) / (k + 1)))
            if func == 'sqrt_quadrature_rule':
                out.append(('x^%d*sqrt(x)' % k, (lambda x, k=k: x**k * mp.sqrt(x)), mp.mpf(1) / (k + mp.mpf(3) / 2)))
            if func == 'sqrtinv_quadrature_rule':
                out.append(('x^%d/sqrt(x)' % k, (lambda x, k=k: x**k / mp.sqrt(x)), mp.mpf(1) / (k + mp.mpf(1) / 2)))
    elif func == 'gauss_sqrtinv_quadrature_rule':
        for k in range(0, 2 * key):
            out.append(('x^%d|1/sqrt(x)' % k, (lambda x, k=k: x**k), mp.mpf(1) / (k + mp.mpf(1) / 2)))
    elif func == 'gauss_x_quadrature_rule':
        for k in range(0, 2 * key):
            out.append(('x^%d|x' % k, (lambda x, k=k: x**k), mp.mpf(1) / (k + 2)))
    elif func == 'gauss_log_quadrature_rule':
        for k in range(0, 2 * key + 1):
            out.append(('x^%d|log(x)' % k, (lambda x, k=k: x**k), -mp.mpf(1) / (k + 1)**2))
    return out


def parse_tables(src_path):
    """{func: [(key, returned?, [node literal text], [weight literal text])]}"""
    with open(src_path) as f:
        src = f.read()
    tree = ast.parse(src)
    tables = {}
    lists = {}
    for node in tree.body:
        if isinstance(node, ast.Assign) and len(node.targets) == 1 and isinstance(node.targets[0], ast.Name) \
                and node.targets[0].id.endswith('_QUAD_RULES'):
            lists[node.targets[0].id] = ast.literal_eval(node.value)
        if isinstance(node, ast.FunctionDef) and node.name.endswith('_quadrature_rule'):
            entries = []
            ifs = [n for n in node.body if isinstance(n, ast.If)]
            stack = list(ifs)
            while stack:
                cur = stack.pop(0)
                test = cur.test
                if isinstance(test, ast.Compare) and len(test.ops) == 1 and isinstance(test.ops[0], ast.Eq):
                    key = ast.literal_eval(test.comparators[0])
                    stmt = cur.body[0]
                    returned = isinstance(stmt, ast.Return)
                    val = stmt.value if isinstance(stmt, (ast.Return, ast.Expr)) else None
                    nodes = weights = None
                    if isinstance(val, ast.Tuple) and len(val.elts) == 2:
                        def lits(t):
                            if not isinstance(t, ast.Tuple):
                                return None
                            return [ast.get_source_segment(src, e).replace(' ', '') for e in t.elts]
                        nodes, weights = lits(val.elts[0]), lits(val.elts[1])
                    entries.append((key, returned, nodes, weights))
                for n in cur.orelse:
                    if isinstance(n, ast.If):
                        stack.append(n)
            tables[node.name] = entries
    return tables, lists


def relerr(approx, exact):
    return abs(approx - exact) / abs(exact)


def mag(e):
    """order-of-magnitude tag used in buckets, so that a known finding covers only its own size"""
    if e == 0:
        return '0'
    return '1e%d' % int(mp.floor(mp.log10(e)))


def check_rule(rec, func, key, returned, lit_nodes, lit_weights, fn, sens=False):
    """All clauses for one table entry.  Returns nothing; records into rec."""
    args = key if isinstance(key, tuple) else (key, )
    tag = '%s%s' % (func, list(args))
    B = lambda clause: 'C05/%s/%s/%s' % (func, ','.join(map(str, args)), clause)
    case = {'func': func, 'key': list(args)}
    # --- the call
    rec.case()
    rec.nontriv([tag, 'call'])
    try:
        with repo.quiet():
            out = fn(*args)
    except Exception as e:
        rec.violation(B('call'), {'exception': repr(e)}, case)
        return
    if not (isinstance(out, tuple) and len(out) == 2):
        rec.violation(B('call'), {'returned': repr(out)[:80]}, case)
        return
    nodes, weights = out
    try:
        nodes = [float(x) for x in nodes]
        weights = [float(x) for x in weights]
    except Exception as e:
        rec.violation(B('call'), {'exception': repr(e)}, case)
        return
    if len(nodes) != len(weights) or len(nodes) == 0:
        rec.violation(B('shape'), {'nodes': len(nodes), 'weights': len(weights)}, case)
        return
    if not all(0.0 < x < 1.0 for x in nodes):
        rec.violation(B('nodes_range'), {'nodes': nodes}, case)
    if not (all(w > 0 for w in weights) or all(w < 0 for w in weights)):
        rec.violation(B('sign'), {'weights': weights}, case)
    rec.cls(func)
    moms = moments(func, key)
    mp_nodes = [mp.mpf(x) for x in nodes]
    mp_weights = [mp.mpf(w) for w in weights]
    lit_ok = lit_nodes is not None and lit_weights is not None and len(lit_nodes) == len(lit_weights)
    if lit_ok:
        try:
            ln = [mp.mpf(s) for s in lit_nodes]
            lw = [mp.mpf(s) for s in lit_weights]
            # the literal table must be the one the function returns
            if len(ln) != len(nodes) or any(float(a) != b for a, b in zip(ln, nodes)) or \
                    any(float(a) != b for a, b in zip(lw, weights)):
                lit_ok = False
                rec.add('literal_table_not_matched')
        except Exception:
            lit_ok = False
    worst_d = mp.mpf(0)
    worst_w = mp.mpf(0)
    for label, f, exact in moms:
        rec.case()
        rec.nontriv([tag, label, 'double'])
        e = relerr(mp.fsum(w * f(x) for x, w in zip(mp_nodes, mp_weights)), exact)
        worst_d = max(worst_d, e)
        if lit_ok:
            rec.case()
            rec.nontriv([tag, label, 'written'])
            e2 = relerr(mp.fsum(w * f(x) for x, w in zip(ln, lw)), exact)
            worst_w = max(worst_w, e2)
    rec.metric('double_relerr', worst_d, case)
    rec.metric('written_relerr', worst_w, case)
    if worst_d > mp.mpf('1e-13'):
        rec.violation(B('double@' + mag(worst_d)), {'worst_rel_err': float(worst_d)}, case)
    if lit_ok and worst_w > mp.mpf('1e-30'):
        rec.violation(B('written@' + mag(worst_w)), {'worst_rel_err': float(worst_w)}, case)
    if len(rec.samples) < 6 and moms:
        rec.sample({'func': func, 'key': list(args), 'n_nodes': len(nodes), 'moments': [m[0] for m in moms][:6],
                    'double_relerr': float(worst_d), 'written_relerr': float(worst_w)})
    # --- self-sensitivity (thorough): a change in the 14th significant digit of any node is noticed
    if sens and moms:
        for i in range(len(nodes)):
            pert = list(mp_nodes)
            pert[i] = pert[i] * (1 + mp.mpf('3e-13'))
            worst = max(relerr(mp.fsum(w * f(x) for x, w in zip(pert, mp_weights)), exact) for _, f, exact in moms)
            rec.add('sensitivity_trials')
            if worst > mp.mpf('1e-13'):
                rec.add('sensitivity_detected')


def run(ctx):
    rec = ctx.rec
    from src import quadrature_rules as qr
    from src import quadrature as q
    import numpy as np
    tables, lists = parse_tables(os.path.join(repo.REPO, 'src', 'quadrature_rules.py'))
    jobs = []
    for func in FUNCS:
        if func not in tables:
            rec.violation('C05/%s/missing' % func, {'missing': func}, {'func': func})
            continue
        for key, returned, ln, lw in tables[func]:
            jobs.append((func, key, returned, ln, lw))
    rec.extra['table_keys'] = len(jobs) if ctx.k == 0 else 0
    for func, key, returned, ln, lw in ctx.mine(jobs):
        check_rule(rec, func, key, returned, ln, lw, getattr(qr, func), sens=not ctx.quick)
    if ctx.k != 0:
        return
    # --- exported key lists: every named pair must be available, and the lists parsed == lists imported
    for lname, func in LISTS.items():
        imported = getattr(qr, lname, None)
        if imported is None:
            rec.violation('C05/%s/missing' % lname, {}, {'list': lname})
            continue
        table_keys = {k for k, _, _, _ in tables.get(func, [])}
        for pair in imported:
            rec.case()
            rec.nontriv([lname, list(pair)])
            rec.cls('exported_pair')
            case = {'list': lname, 'pair': list(pair)}
            try:
                with repo.quiet():
                    out = getattr(qr, func)(*pair)
                ok = isinstance(out, tuple) and len(out) == 2 and len(out[0]) == len(out[1]) > 0
            except BaseException as e:
                ok = False
            if not ok:
                rec.violation('C05/%s/%s/exported' % (lname, ','.join(map(str, pair))), {}, case)
    # --- scheme constructors of quadrature.py, for every degree mapping to a key
    def scheme_check(name, args, moms):
        rec.case()
        rec.nontriv(['scheme', name, list(args)])
        rec.cls('scheme_constructor')
        case = {'scheme': name, 'args': list(args)}
        B = 'C05/%s/%s/scheme' % (name, ','.join(map(str, args)))
        try:
            with repo.quiet():
                s = getattr(q, name)(*args)
            pts = [mp.mpf(float(x)) for x in np.asarray(s.points).ravel()]
            wts = [mp.mpf(float(x)) for x in np.asarray(s.weights).ravel()]
        except Exception as e:
            rec.violation(B, {'exception': repr(e)}, case)
            return
        if len(pts) != len(wts) or not pts:
            rec.violation(B, {'shape': [len(pts), len(wts)]}, case)
            return
        worst = mp.mpf(0)
        for label, f, exact in moms:
            rec.case()
            rec.nontriv(['scheme', name, list(args), label])
            worst = max(worst, relerr(mp.fsum(w * f(x) for x, w in zip(pts, wts)), exact))
        rec.metric('scheme_relerr', worst, case)
        if worst > mp.mpf('1e-13'):
            rec.violation(B + '@' + mag(worst), {'worst_rel_err': float(worst)}, case)

    for key, _, _, _ in tables.get('log_quadrature_rule', []):
        scheme_check('log_quadrature_scheme', key, moments('log_quadrature_rule', key))
    for key, _, _, _ in tables.get('log_log_quadrature_rule', []):
        scheme_check('log_log_quadrature_scheme', key, moments('log_log_quadrature_rule', key))
    for key, _, _, _ in tables.get('sqrt_quadrature_rule', []):
        scheme_check('sqrt_quadrature_scheme', key, moments('sqrt_quadrature_rule', key))
    for key, _, _, _ in tables.get('sqrtinv_quadrature_rule', []):
        scheme_check('sqrtinv_quadrature_scheme', key, moments('sqrtinv_quadrature_rule', key))
    for N, _, _, _ in tables.get('gauss_sqrtinv_quadrature_rule', []):
        n_poly = 2 * N - 1       # the constructor insists on odd degrees
        scheme_check('gauss_sqrtinv_quadrature_scheme', (n_poly, ),
                     [m for m in moments('gauss_sqrtinv_quadrature_rule', N)][:n_poly + 1])
    for N, _, _, _ in tables.get('gauss_x_quadrature_rule', []):
        for n_poly in (2 * N - 1, 2 * N):
            if (n_poly + 1) // 2 == N:
                scheme_check('gauss_x_quadrature_scheme', (n_poly, ),
                             [m for m in moments('gauss_x_quadrature_rule', N)][:min(n_poly, 2 * N - 1) + 1])
    for N, _, _, _ in tables.get('gauss_log_quadrature_rule', []):
        for n_poly in (2 * N - 1, 2 * N):
            if n_poly >= 0 and (n_poly + 1) // 2 == N:
                scheme_check('gauss_log_quadrature_scheme', (n_poly, ),
                             [m for m in moments('gauss_log_quadrature_rule', N)][:n_poly + 1])
    for n_poly in range(1, 48, 2):
        moms = [('x^%d' % k, (lambda x, k=k: x**k), mp.mpf(1) / (k + 1)) for k in range(n_poly + 1)]
        scheme_check('gauss_quadrature_scheme', (n_poly, ), moms)


def replay(case):
    from vlib.common import Recorder
    from src import quadrature_rules as qr
    rec = Recorder()
    if 'func' in case:
        tables, _ = parse_tables(os.path.join(repo.REPO, 'src', 'quadrature_rules.py'))
        key = tuple(case['key']) if len(case['key']) > 1 else case['key'][0]
        for k, returned, ln, lw in tables[case['func']]:
            if k == key:
                check_rule(rec, case['func'], k, returned, ln, lw, getattr(qr, case['func']))
    else:
        # exported pairs / schemes: re-run the cheap complete pass of shard 0 and filter
        from vlib.common import Ctx
        ctx = Ctx(ID, 'quick', 1, 0, 1)
        run(ctx)
        rec = ctx.rec
        want = case.get('list') or case.get('scheme')
        rec.violations = [v for v in rec.violations if want in v['bucket']]
    return [(v['bucket'], v['detail']) for v in rec.violations]


def coverage_hook(cov, tier):
    if 'sensitivity_trials' in cov:
        cov['self_sensitivity'] = ('%d of %d single-node perturbations (relative 3e-13) pushed some advertised '
                                   'moment beyond 1e-13' % (cov.get('sensitivity_detected', 0),
                                                            cov['sensitivity_trials']))
