"""C04 -- causality: exact zeros for acausal pairs / times, non-negativity and strict positivity otherwise."""
import numpy as np
from hypothesis import strategies as st

from vlib import repo, pairs, points, refint, gens
from vlib.common import explore, khash, Recorder
from vlib.geo import geo as get_geo
from vlib.meshreal import Live, apply_op
from vlib.checks.c01 import operator, intervals

ID = 'C04'
LEVEL = 'exploration'
RULE = ('(a) element pairs as C01 with acausal time classes as frequent as causal ones (incl. test.t1 == trial.t0 '
        'exactly), both switches: acausal => bilform == 0.0 exactly, causal => >= -1e-15 sqrt(D D) and > 0 when a cheap '
        'positive reference exceeds 1e-240; (b) bilform_matrix on generated meshes through the inline, serial and pool '
        'paths (worker counts 1..4), square and rectangular lists: every acausal (i, j) is exactly 0 and the transposed '
        'entry is positive when its reference allows (rows = test, columns = trial), MP_SL_matrix_col called directly; '
        '(c) evaluate / evaluate_exact / potential at generated points and times incl. t == t_start, before, '
        'nextafter(t_start), t == t_end. Non-trivial = acausal pair with touching time intervals, or causal pair/point '
        'with reference in (1e-250, 1e-30), or t exactly at an element time; distinct by inputs.')
ASSUMPTIONS = ['magnitude reference: low-order variant of vlib/refint.py (positive weights, positive integrand), needed '
               'only within a factor 1e10', 'closed-form variants (pw_exact bilform, evaluate_exact) returning '
               'cancellation noise for values below 1e-12 of the scale are listed known findings K3/K4']


def shards(tier):
    return 16


def noise_window(val, ref, scale):
    return abs(val) <= 1e-12 * scale and ref < 1e-12 * scale


# ------------------------------------------------------------------ (a) pairs
def pair_body(case, rec):
    rec.case()
    from vlib.meshdrive import exc_site
    try:
        live, test, trial, reason = pairs.realise(case)
    except Exception as ex:
        if exc_site(ex) == 'harness':
            raise
        rec.add('mesh_construction_failed')
        return
    if reason:
        rec.exclude(reason)
        return
    g = get_geo(case['spec']['curve'])
    if case.get('tail') and case['fam'] == 'history':
        # deep-tail selection: among the leaves, prefer a trial element for which the largest kernel argument
        # rho / (test.t1 - trial.t0) lies in the window where the exact value is between 1e-250 and 1e-30
        tt, tx = intervals(test)
        PX = g.point(g.side_of(*tx), np.linspace(tx[0], tx[1], 5))
        cands = []
        for e in live.leaves():
            if not pairs.aspect_ok(e):
                continue
            et, ex_ = intervals(e)
            z = tt[1] - et[0]
            if z <= 0:
                continue
            PY = g.point(g.side_of(*ex_), np.linspace(ex_[0], ex_[1], 5))
            d2 = np.min((PX[0][:, None] - PY[0][None, :])**2 + (PX[1][:, None] - PY[1][None, :])**2)
            if 75 <= d2 / (4 * z) <= 540:
                cands.append(e)
        if cands:
            trial = cands[case['j'] % len(cands)]
    tt, tx = intervals(test)
    st_, sx = intervals(trial)
    sc, tc, near, info = pairs.classify(g, tt, tx, st_, sx)
    if pairs.close_disjoint_excluded(info, sc):
        rec.exclude('short_panel_close_to_much_longer_one')
        return
    cj = dict(case)
    cj['_pair'] = {'test': [tt, tx], 'trial': [st_, sx], 'class': sc + '|' + tc}
    acausal = tt[1] <= st_[0]
    if not acausal:
        scale = (refint.diag(g, tt, tx, 'coarse') * refint.diag(g, st_, sx, 'coarse'))**0.5
        ref = refint.bilform(g, tt, tx, st_, sx, 'coarse')
    for exact in ([False, True] if g.polygon else [False]):
        site = 'bilform_exact' if exact else 'bilform'
        try:
            SL = operator(live, exact)
            with repo.quiet():
                val = SL.bilform(trial, test)
        except Exception as ex:
            if exc_site(ex) == 'harness':
                raise
            rec.violation('C04/%s/exception/%s' % (site, type(ex).__name__), {'error': repr(ex)}, cj)
            continue
        rec.cls(site + ('|acausal' if acausal else '|causal'))
        if acausal:
            if tt[1] == st_[0]:
                rec.nontriv([case['spec'], tt, tx, st_, sx, exact])
                rec.cls('acausal_touching')
            if not (val == 0.0):
                rec.violation('C04/%s/acausal_nonzero' % site, {'value': float(val)}, cj)
            continue
        val = float(val)
        uses_closed_form = exact and g.side_of(*tx) == g.side_of(*sx)
        if 1e-250 < ref < 1e-30 * scale:
            rec.nontriv([case['spec'], tt, tx, st_, sx, exact])
            rec.cls('deep_tail')
        if val < -1e-15 * scale or (val <= 0 and ref > 1e-240):
            if uses_closed_form and noise_window(val, ref, scale):
                rec.violation('C04/bilform_exact/closed_form_noise', {'value': val, 'reference': ref, 'scale': scale}, cj)
            else:
                rec.violation('C04/%s/%s' % (site, 'negative' if val < 0 else 'zero_where_positive'),
                              {'value': val, 'reference': ref, 'scale': scale, 'class': sc + '|' + tc}, cj)
        rec.metric('most_negative_over_scale', max(0.0, -val / scale))
    if len(rec.samples) < 3:
        rec.sample(cj)


# ------------------------------------------------------------------ (b) matrices
def matrix_cases():
    return st.fixed_dictionaries({
        'kind': st.just('matrix'), 'spec': pairs.pair_specs(), 'ops': gens.histories(max_ops=25, allow=('t', 'x', 'tx', 'unif')),
        'path': st.sampled_from(['inline', 'serial', 'pool', 'pool', 'col']), 'workers': st.one_of(st.integers(1, 4), st.integers(5, 16)),
        'rect': st.sampled_from(['square', 'rows', 'cols', 'both', 'tall', 'wide']), 'cut': st.integers(0, 10**6), 'exact': st.booleans(),
    })


def matrix_body(case, rec):
    rec.case()
    from vlib.meshdrive import exc_site
    import src.single_layer as slm
    try:
        live = Live(case['spec'], min_hx=1e-4)
        for op in case['ops']:
            apply_op(live, op, cap=64)
    except Exception as ex:
        if exc_site(ex) == 'harness':
            raise
        rec.add('mesh_construction_failed')
        return
    g = get_geo(case['spec']['curve'])
    leaves = [e for e in live.leaves() if pairs.aspect_ok(e)]
    if len(leaves) < 2:
        rec.exclude('too_few_elements')
        return
    leaves.sort(key=lambda e: (e.time_interval[0], e.time_interval[1], e.space_interval[0]))
    n = len(leaves)
    path = case['path']
    if path == 'inline':
        k = max(2, min(9, n))
        test = leaves[case['cut'] % (n - k + 1):][:k]
        trial = leaves[(case['cut'] // 7) % (n - k + 1):][:k]
    else:
        test, trial = list(leaves), list(leaves)
        if case['rect'] in ('rows', 'both') and n > 12:
            test = leaves[: max(10, n - 1 - case['cut'] % 5)]
        if case['rect'] in ('cols', 'both') and n > 12:
            trial = leaves[case['cut'] % 3:]
        if case['rect'] == 'tall' and n >= 20:
            test, trial = list(leaves), leaves[case['cut'] % 3::max(2, n // 6)][:7]
        if case['rect'] == 'wide' and n >= 20:
            trial, test = list(leaves), leaves[case['cut'] % 3::max(2, n // 6)][:7]
        if len(test) * len(trial) < 100:
            path = 'inline'
    exact = case['exact'] and g.polygon
    SL = operator(live, exact)
    try:
        with repo.quiet():
            if path in ('inline', 'serial'):
                mat = SL.bilform_matrix(test, trial, use_mp=False)
            elif path == 'pool':
                with repo.pool_shim([slm], case['workers']):
                    mat = SL.bilform_matrix(test, trial, use_mp=True)
            else:
                slm.__dict__['__elems_test'] = test
                slm.__dict__['__elems_trial'] = trial
                slm.__dict__['__SL'] = SL
                mat = np.zeros((len(test), len(trial)))
                for j in range(len(trial)):
                    mat[:, j] = slm.MP_SL_matrix_col(j)
    except Exception as ex:
        if exc_site(ex) == 'harness':
            raise
        rec.violation('C04/matrix_%s/exception/%s' % (path, type(ex).__name__), {'error': repr(ex)}, case)
        return
    mat = np.asarray(mat)
    if mat.shape != (len(test), len(trial)):
        rec.violation('C04/matrix_%s/shape' % path, {'shape': list(mat.shape), 'expected': [len(test), len(trial)]}, case)
        return
    rec.cls('matrix_' + path)
    rec.nontriv(khash(case))
    budget = 60
    for i, et in enumerate(test):
        for j, es in enumerate(trial):
            tt, tx = intervals(et)
            st_, sx = intervals(es)
            v = float(mat[i, j])
            if tt[1] <= st_[0]:
                rec.add('acausal_entries_checked')
                if v != 0.0:
                    rec.violation('C04/matrix_%s/acausal_nonzero' % path, {'i': i, 'j': j, 'value': v, 'test': [tt, tx], 'trial': [st_, sx]}, case)
                    return
            else:
                closed_form = exact and g.side_of(*tx) == g.side_of(*sx)
                if v < 0 and not closed_form:
                    rec.violation('C04/matrix_%s/negative' % path, {'i': i, 'j': j, 'value': v}, case)
                    return
                if v <= 0 and budget > 0 and not closed_form:
                    budget -= 1
                    sc, tc, near, info = pairs.classify(g, tt, tx, st_, sx)
                    if pairs.close_disjoint_excluded(info, sc):
                        continue
                    ref = refint.bilform(g, tt, tx, st_, sx, 'coarse')
                    if ref > 1e-240:
                        rec.violation('C04/matrix_%s/zero_where_positive' % path,
                                      {'i': i, 'j': j, 'value': v, 'reference': ref, 'test': [tt, tx], 'trial': [st_, sx]}, case)
                        return
    # rows = test, columns = trial: for strictly ordered time slabs the upper block is zero and the lower block is not
    if len(rec.samples) < 5:
        rec.sample({k: v for k, v in case.items() if k != 'ops'} | {'n_ops': len(case['ops']), 'shape': list(mat.shape)})


# ------------------------------------------------------------------ (c) pointwise
def interior_point(g, u, v):
    name = g.name
    if name == 'UnitSquare':
        return [0.02 + 0.96 * u, 0.02 + 0.96 * v]
    if name == 'PiSquare':
        return [np.pi * (0.02 + 0.96 * u), np.pi * (0.02 + 0.96 * v)]
    if name == 'LShape':
        x, y = -0.98 + 1.96 * u, -0.98 + 1.96 * v
        if x < 0.02 and y < 0.02:
            x, y = abs(x) * 0.9 + 0.05, abs(y) * 0.9 + 0.05
        return [x, y]
    if name == 'Circle':
        r, a = 0.97 * np.sqrt(u), 2 * np.pi * v
        return [r * np.cos(a), r * np.sin(a)]
    return [u, 0.05 + v]          # open interval: any point off the segment


def point_body(case, rec):
    rec.case()
    from vlib.meshdrive import exc_site
    try:
        live, e, t, x, info = points.realise(case)
    except Exception as ex:
        if exc_site(ex) == 'harness':
            raise
        rec.add('mesh_construction_failed')
        return
    g = get_geo(case['spec']['curve'])
    tt, tx = intervals(e)
    if info['inside'] and 0 < info['end_dist'] <= 1e-5 * (1 + 1e-9):
        rec.exclude('interior_point_within_1e-5_of_end')
        return
    SL = operator(live, False)
    acausal = t <= tt[0]
    sides = g.sides_at(x)
    side_x = sides[-1] if case['side'] > 0 else sides[0]
    P = g.point(side_x, x).reshape(2, 1)
    cj = dict(case)
    cj['_point'] = {'t': t, 'x_hat': x, 'elem': [tt, tx]}
    at_elem_time = t in (tt[0], tt[1])
    peak = refint.evaluate(g, tt[1], 0.5 * (tx[0] + tx[1]), g.side_of(*tx), tt, tx, res='coarse')
    calls = [('evaluate', lambda: SL.evaluate(e, t, x, P), lambda: refint.evaluate(g, t, x, side_x, tt, tx, res='coarse'))]
    if g.straight(side_x) and side_x == g.side_of(*tx):
        calls.append(('evaluate_exact', lambda: SL.evaluate_exact(e, t, x), calls[0][2]))
    Q = np.array(interior_point(g, case['tpar'], case['xpar'])).reshape(2, 1)
    calls.append(('potential', lambda: SL.potential(e, t, Q), lambda: refint.potential(g, t, Q.ravel(), tt, tx)))
    for name, fn, reffn in calls:
        try:
            with repo.quiet():
                val = fn()
        except Exception as ex:
            if exc_site(ex) == 'harness':
                raise
            rec.violation('C04/%s/exception/%s' % (name, type(ex).__name__), {'error': repr(ex)}, cj)
            continue
        rec.cls(name + ('|acausal' if acausal else '|causal'))
        if at_elem_time:
            rec.nontriv([name, case['spec'], tt, tx, t, x])
        if acausal:
            if not (val == 0.0):
                rec.violation('C04/%s/acausal_nonzero' % name, {'value': float(val)}, cj)
            continue
        val = float(val)
        ref = reffn()
        if 1e-250 < ref < 1e-30 * peak:
            rec.nontriv([name, case['spec'], tt, tx, t, x])
            rec.cls('deep_tail_point')
        if val < -1e-15 * peak or (val <= 0 and ref > 1e-240):
            if name == 'evaluate_exact' and not info['inside'] and noise_window(val, ref, peak):
                rec.violation('C04/evaluate_exact/closed_form_noise', {'value': val, 'reference': ref, 'scale': peak}, cj)
            elif name == 'evaluate' and val == 0.0 and info['tau'] is not None and info['h']**2 / (t - tt[0]) > 1e9:
                # the kernel is a spike of width sqrt(t - t_start) << distance between the fixed quadrature nodes
                rec.violation('C04/evaluate/zero_for_unresolved_spike', {'value': val, 'reference': ref, 'scale': peak,
                                                                         't_minus_t_start': t - tt[0], 'h_x': info['h']}, cj)
            elif name == 'potential' and val == 0.0 and ref < 1e-100 and info['h']**2 / (t - tt[0]) > 1e4:
                # the same spike seen from a point off the curve: the kernel exp(-d^2 / 4 tau) is narrower than the
                # spacing of the fixed rule, every node lies farther from the point than the nearest point of the element
                # and underflows, while the exact value (governed by the nearest point) is above the underflow range
                rec.violation('C04/potential/zero_for_unresolved_spike', {'value': val, 'reference': ref, 'scale': peak,
                                                                          't_minus_t_start': t - tt[0], 'h_x': info['h']}, cj)
            else:
                rec.violation('C04/%s/%s' % (name, 'negative' if val < 0 else 'zero_where_positive'),
                              {'value': val, 'reference': ref, 'scale': peak, 't': t, 'x_hat': x}, cj)


def body(case, rec):
    k = case.get('kind')
    if k == 'matrix':
        matrix_body(case, rec)
    elif k == 'point':
        point_body(case, rec)
    else:
        pair_body(case, rec)


def cases():
    tcs = ['equal', 'touch_after', 'separated', 'overlap', 'acausal', 'acausal_touch', 'acausal_touch', 'acausal']
    tail = pairs.history_cases(max_ops=40).map(lambda c: dict(c, tail=True, sc='disjoint', tc='any'))
    M = pairs.WITH_MIXED
    pr = st.one_of(pairs.target_cases(time_classes=tcs, curves=M), pairs.target_cases(time_classes=tcs, curves=M),
                   pairs.history_cases(curves=M), pairs.piece_cases(curves=M), tail).map(lambda c: dict(c, kind='pair'))
    pt = points.point_cases(polygons=True).map(lambda c: dict(c, kind='point'))
    return st.one_of(pr, pr, pt, pt, matrix_cases())


def run(ctx):
    n = ctx.share(8000 if ctx.quick else 80000)
    explore(ctx, cases(), body, n)


def replay(case):
    rec = Recorder()
    body(case, rec)
    return [(v['bucket'], v['detail']) for v in rec.violations]
