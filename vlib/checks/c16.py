"""C16 -- domain quadtree: tiling, 2:1 balance, vertex uniqueness and boundary-segment targeting."""
import math
import signal

import numpy as np
from hypothesis import strategies as st

from vlib import repo
from vlib.common import explore, khash, Recorder

ID = 'C16'
LEVEL = 'exploration'
RULE = ('domain in {UnitSquare, PiSquare, LShape} x (a) bounded exhaustive BFS over all sequences of cell refinements '
        '(depth 4 quick / 5 thorough, de-duplicated by leaf set), (b) Hypothesis-generated refinement sequences (<= 40 '
        'steps, level <= 7), (c) boundary targeting on a fresh mesh: every dyadic segment [k/2^l, (k+1)/2^l] of every unit '
        'piece of every side for l <= 6 (all k) and 64 sampled + the two extreme k for 7 <= l <= 10, both orientations, end '
        'points as tuples, lists, (2,1) arrays (integral coordinates also written as integers) and as produced by the '
        'pipeline (gamma_space of a bisected boundary element). Oracle: integer-grid model of the leaves (squares of their level inside one root, total area, no leaf '
        'inside another, edge-adjacent levels differ by <= 1, unique vertex coordinates, the refined cell replaced by its '
        'four children); targeting returns a leaf, exactly one leaf has both end points as vertices, both are found by '
        'vertex_from_coords, the edge has the requested length, and the predicates still hold; (d) the same targeting on '
        'meshes with a generated refinement history that is nowhere finer than the segment along it. Non-trivial = sequence in '
        'which the balance closure refined another cell, or segment with l >= 3 not adjacent to a corner; distinct by '
        'leaf set / segment.')
ASSUMPTIONS = ['leaf coordinates are mapped to an integer grid of 2^-12 units (unit = 1 or pi), tolerance 1e-9 units',
               'targeting is exercised on fresh meshes, the way the load-vector code calls it']

LM = 12
DOMAINS = {'UnitSquare': (1.0, 0.0, 0.0, 1.0), 'PiSquare': (math.pi, 0.0, 0.0, 1.0), 'LShape': (1.0, -1.0, -1.0, 3.0)}
# unit pieces of the boundary: (start point, direction) in units
PIECES = {
    'UnitSquare': [((0, 0), (1, 0)), ((1, 0), (0, 1)), ((1, 1), (-1, 0)), ((0, 1), (0, -1))],
    'LShape': [((0, 0), (0, -1)), ((0, -1), (1, 0)), ((1, -1), (0, 1)), ((1, 0), (0, 1)), ((1, 1), (-1, 0)), ((0, 1), (-1, 0)),
               ((-1, 1), (0, -1)), ((-1, 0), (1, 0))],
}
PIECES['PiSquare'] = PIECES['UnitSquare']


def shards(tier):
    return 16


def make(dom):
    from src import initial_mesh as im
    with repo.quiet():
        return getattr(im, dom)()


def grid(dom, v):
    unit, x0, y0, area = DOMAINS[dom]
    gx = (float(v.x) - x0 * unit) / unit * (1 << LM)
    gy = (float(v.y) - y0 * unit) / unit * (1 << LM)
    return gx, gy


def leaf_boxes(dom, mesh):
    """[(elem, x0, y0, size)] in integer grid units, or a defect"""
    out = []
    for e in mesh.leaf_elements:
        pts = [grid(dom, v) for v in e.vertices]
        ints = []
        for gx, gy in pts:
            ix, iy = round(gx), round(gy)
            if abs(ix - gx) > 1e-9 * (1 << LM) or abs(iy - gy) > 1e-9 * (1 << LM):
                return None, ('off_grid', repr(e))
            ints.append((ix, iy))
        xs = sorted({p[0] for p in ints})
        ys = sorted({p[1] for p in ints})
        if len(xs) != 2 or len(ys) != 2 or xs[1] - xs[0] != ys[1] - ys[0]:
            return None, ('not_a_square', repr(e))
        size = xs[1] - xs[0]
        if size != (1 << LM) >> e.level or xs[0] % size or ys[0] % size:
            return None, ('not_dyadic_of_its_level', repr(e))
        if ints != [(xs[0], ys[0]), (xs[1], ys[0]), (xs[1], ys[1]), (xs[0], ys[1])]:
            return None, ('vertex_order', repr(e))
        out.append((e, xs[0], ys[0], size))
    return out, None


def predicates(dom, mesh):
    """list of (clause, detail)"""
    boxes, defect = leaf_boxes(dom, mesh)
    if defect:
        return [defect]
    out = []
    unit, x0, y0, area = DOMAINS[dom]
    tot = sum(s * s for _, _, _, s in boxes)
    if tot != int(area) * (1 << LM) ** 2:
        out.append(('area', {'sum': tot / (1 << LM) ** 2, 'expected': area}))
    keyset = {(x, y, s) for _, x, y, s in boxes}
    if len(keyset) != len(boxes):
        out.append(('duplicate_leaf', {}))
    for _, x, y, s in boxes:           # no leaf strictly inside another
        ss = s * 2
        while ss <= (1 << LM):
            if (x - x % ss, y - y % ss, ss) in keyset:
                out.append(('overlap', {'cell': [x, y, s]}))
                break
            ss *= 2
    # 2:1 balance over edge-adjacent leaves
    by_left, by_bottom = {}, {}
    for b in boxes:
        by_left.setdefault(b[1], []).append(b)
        by_bottom.setdefault(b[2], []).append(b)
    for e, x, y, s in boxes:
        for o in by_left.get(x + s, []):
            if min(y + s, o[2] + o[3]) > max(y, o[2]) and abs(e.level - o[0].level) > 1:
                out.append(('balance', {'a': repr(e), 'b': repr(o[0])}))
        for o in by_bottom.get(y + s, []):
            if min(x + s, o[1] + o[3]) > max(x, o[1]) and abs(e.level - o[0].level) > 1:
                out.append(('balance', {'a': repr(e), 'b': repr(o[0])}))
    coords = {}
    for i, v in enumerate(mesh.vertices):
        key = (float(v.x), float(v.y))
        if key in coords:
            out.append(('vertex_duplicate', {'xy': key}))
            break
        coords[key] = v
    return out


def canon_leaves(dom, mesh):
    boxes, defect = leaf_boxes(dom, mesh)
    if defect:
        return None
    boxes.sort(key=lambda b: (b[1], b[2], b[3]))
    return boxes


def apply_seq(dom, seq):
    """seq: list of leaf indices into the canonical leaf order; returns (mesh, n_forced of last step, defect)"""
    mesh = make(dom)
    forced = 0
    for i in seq:
        boxes = canon_leaves(dom, mesh)
        if boxes is None:
            return mesh, 0, ('off_grid', {})
        e = boxes[i % len(boxes)][0]
        if e.level >= 7:
            continue
        before = {(x, y, s) for _, x, y, s in boxes}
        with repo.quiet():
            mesh.refine(e)
        after = canon_leaves(dom, mesh)
        if after is None:
            return mesh, 0, ('off_grid', {})
        aset = {(x, y, s) for _, x, y, s in after}
        tx, ty, ts = [(x, y, s) for el, x, y, s in boxes if el is e][0]
        if (tx, ty, ts) in aset:
            return mesh, 0, ('refined_cell_still_a_leaf', {'cell': repr(e)})
        h = ts // 2
        if not {(tx, ty, h), (tx + h, ty, h), (tx, ty + h, h), (tx + h, ty + h, h)} <= aset:
            return mesh, 0, ('children_missing', {'cell': repr(e)})
        # new leaf set refines the old one
        for (x, y, s) in aset:
            ss, ok = s, False
            while ss <= (1 << LM):
                if (x - x % ss, y - y % ss, ss) in before:
                    ok = True
                    break
                ss *= 2
            if not ok:
                return mesh, 0, ('not_a_refinement', {'cell': [x, y, s]})
        forced = (len(after) - len(boxes) - 3) // 3
    return mesh, forced, None


def seq_body(case, rec, where='random'):
    rec.case()
    from vlib.meshdrive import exc_site
    dom = case['dom']
    try:
        mesh, forced, defect = apply_seq(dom, case['seq'])
    except Exception as ex:
        if exc_site(ex) == 'harness':
            raise
        rec.violation('C16/%s/exception/%s/%s' % (where, exc_site(ex), type(ex).__name__), {'error': repr(ex)}, case)
        return None
    if defect:
        rec.violation('C16/%s/%s' % (where, defect[0]), defect[1], case)
        return None
    for clause, detail in predicates(dom, mesh):
        rec.violation('C16/%s/%s' % (where, clause), detail, case)
        return None
    rec.cls('dom_' + dom)
    if forced > 0:
        rec.cls('balance_closure_refined_a_neighbour')
        rec.nontriv(['seq', dom, [tuple(b[1:]) for b in canon_leaves(dom, mesh)]])
    return mesh


def bfs(ctx, depth):
    rec = ctx.rec
    jobs = []
    for dom in DOMAINS:
        n0 = len(make(dom).leaf_elements)
        for i in range(n0):
            jobs.append((dom, i))
    # split the first level further so that 16 shards have work
    jobs2 = []
    for dom, i in jobs:
        mesh, _, _ = apply_seq(dom, [i])
        for j in range(len(mesh.leaf_elements)):
            jobs2.append((dom, [i, j]))
    for dom, pre in ctx.mine(jobs2):
        seen = set()
        frontier = [pre]
        for d in range(2, depth + 1):
            nxt = []
            for seq in frontier:
                mesh = seq_body({'dom': dom, 'seq': seq, 'kind': 'seq'}, rec, 'bfs')
                if mesh is None:
                    continue
                key = khash([tuple(b[1:]) for b in canon_leaves(dom, mesh)])
                if key in seen:
                    continue
                seen.add(key)
                rec.setadd('states', dom + key)
                rec.add('transitions')
                if d < depth:
                    for k in range(len(mesh.leaf_elements)):
                        nxt.append(seq + [k])
            frontier = nxt


# ------------------------------------------------------------------ targeting
class Timeout(Exception):
    pass


def _alarm(signum, frame):
    raise Timeout()


def segment_points(dom, piece, l, k):
    unit = DOMAINS[dom][0]
    (sx, sy), (dx, dy) = PIECES[dom][piece]
    a, b = k / (1 << l), (k + 1) / (1 << l)
    p = (unit * (sx + dx * a), unit * (sy + dy * a))
    q = (unit * (sx + dx * b), unit * (sy + dy * b))
    return p, q


def pipeline_points(dom, piece, l, k):
    """end points as the load-vector code obtains them: gamma_space(c), gamma_space(d) of a bisected boundary element"""
    from vlib.meshreal import Live
    live = Live({'kind': 'param', 'curve': dom, 'ts': [0.0, 1.0],
                 'xs': [float(i) for i in range(9)] if dom == 'LShape' else None})
    root = live.mesh.roots[piece]
    e = root
    for lev in range(l):
        bit = (k >> (l - 1 - lev)) & 1
        if not e.children:
            with repo.quiet():
                live.mesh.refine_space(e)
        e = e.children[bit]
    c, d = e.space_interval
    with repo.quiet():
        return np.array(e.gamma_space(c)), np.array(e.gamma_space(d)), live


def target_body(case, rec):
    rec.case()
    from vlib.meshdrive import exc_site
    dom, piece, l, k = case['dom'], case['piece'], case['l'], case['k']
    unit = DOMAINS[dom][0]
    form = case['form']
    keep = None
    if form == 'pipeline':
        p, q, keep = pipeline_points(dom, piece, l, k)
        pt, qt = tuple(float(v) for v in np.ravel(p)), tuple(float(v) for v in np.ravel(q))
        v0, v1 = p, q
    else:
        pt, qt = segment_points(dom, piece, l, k)
        if case.get('ints'):
            # integral coordinates written as integers, the way a caller writes a corner: (1, 1), [0, 1], array([[1], [0]])
            as_int = lambda v: int(v) if float(v).is_integer() else v
            pt, qt = tuple(as_int(v) for v in pt), tuple(as_int(v) for v in qt)
        if form == 'tuple':
            v0, v1 = pt, qt
        elif form == 'list':
            v0, v1 = list(pt), list(qt)
        else:
            v0, v1 = np.array(pt).reshape(2, 1), np.array(qt).reshape(2, 1)
    if case['flip']:
        v0, v1 = v1, v0
    mesh = make(dom)
    if case.get('pre') or case.get('first'):
        # targeting on a mesh with history: legitimate as long as no leaf along the segment is already finer than it
        if case.get('pre'):
            mesh, _, defect = apply_seq(dom, case['pre'])
            if defect:
                return
        if case.get('first'):
            # an earlier targeting of another segment on the same mesh object (the second must still work where the mesh
            # is not already finer than its segment)
            f = case['first']
            p2, q2 = segment_points(dom, f[0] % len(PIECES[dom]), f[1], f[2] % (1 << f[1]))
            seg1 = unit / (1 << f[1])
            lo1, hi1 = (min(p2[0], q2[0]), min(p2[1], q2[1])), (max(p2[0], q2[0]), max(p2[1], q2[1]))
            for e in mesh.leaf_elements:
                xs1 = [float(v.x) for v in e.vertices]
                ys1 = [float(v.y) for v in e.vertices]
                if min(xs1) <= hi1[0] + 1e-9 and max(xs1) >= lo1[0] - 1e-9 and min(ys1) <= hi1[1] + 1e-9 and \
                        max(ys1) >= lo1[1] - 1e-9 and e.diam < seg1 * (1 - 1e-9):
                    rec.exclude('mesh_already_finer_than_segment')
                    return
            try:
                with repo.quiet():
                    mesh.refine_msh_bdr(p2, q2)
            except Exception as ex:
                if exc_site(ex) == 'harness':
                    raise
                rec.violation('C16/target/exception_first_call/%s' % type(ex).__name__, {'error': repr(ex)}, case)
                return
        seg = unit / (1 << l)
        for e in mesh.leaf_elements:
            xs = [float(v.x) for v in e.vertices]
            ys = [float(v.y) for v in e.vertices]
            lo = (min(pt[0], qt[0]), min(pt[1], qt[1]))
            hi = (max(pt[0], qt[0]), max(pt[1], qt[1]))
            touches = min(xs) <= hi[0] + 1e-9 and max(xs) >= lo[0] - 1e-9 and min(ys) <= hi[1] + 1e-9 and max(ys) >= lo[1] - 1e-9
            if touches and e.diam < seg * (1 - 1e-9):
                rec.exclude('mesh_already_finer_than_segment')
                return
        rec.cls('target_on_mesh_with_history')
    old = signal.signal(signal.SIGALRM, _alarm)
    signal.alarm(30)
    try:
        with repo.quiet():
            if case['k'] % 2 == 0:
                # a caller may look the end points up before refining (on the same mesh object): the answer must be
                # a vertex at that point or None when there is none -- and must not influence later lookups
                for vv, pnt in ((v0, qt if case['flip'] else pt), (v1, pt if case['flip'] else qt)):
                    pre = mesh.vertex_from_coords(vv)
                    exists = [w for w in mesh.vertices if abs(float(w.x) - pnt[0]) <= 1e-9 * unit and abs(float(w.y) - pnt[1]) <= 1e-9 * unit]
                    if (pre is None) != (not exists) or (pre is not None and pre not in exists):
                        rec.violation('C16/target/pre_lookup', {'returned': repr(pre), 'existing': repr(exists)}, case)
                        return
            el = mesh.refine_msh_bdr(v0, v1)
            a = mesh.vertex_from_coords(v0)
            b = mesh.vertex_from_coords(v1)
    except Timeout:
        rec.inconclusive += 1
        return
    except Exception as ex:
        if exc_site(ex) == 'harness':
            raise
        rec.violation('C16/target/exception/%s/%s' % (exc_site(ex), type(ex).__name__), {'error': repr(ex)}, case)
        return
    finally:
        signal.alarm(0)
        signal.signal(signal.SIGALRM, old)
    B = lambda c: 'C16/target/%s' % c
    if el is None or el not in mesh.leaf_elements:
        rec.violation(B('returned_element_not_a_leaf'), {'returned': repr(el)}, case)
        return
    if a is None or b is None or a is b:
        rec.violation(B('vertex_lookup'), {'v0': repr(a), 'v1': repr(b)}, case)
        return
    tol = 1e-9 * unit
    def is_at(v, pnt):
        return abs(float(v.x) - pnt[0]) <= tol and abs(float(v.y) - pnt[1]) <= tol
    pp, qq = (pt, qt)
    if not ((is_at(a, pp) and is_at(b, qq)) or (is_at(a, qq) and is_at(b, pp))):
        rec.violation(B('vertex_lookup_wrong_point'), {'v0': repr(a), 'v1': repr(b), 'wanted': [pp, qq]}, case)
        return
    owners = []
    for e in mesh.leaf_elements:
        has_p = any(is_at(v, pp) for v in e.vertices)
        has_q = any(is_at(v, qq) for v in e.vertices)
        if has_p and has_q:
            owners.append(e)
    if len(owners) != 1 or owners[0] is not el:
        rec.violation(B('segment_owner'), {'owners': repr(owners), 'returned': repr(el)}, case)
        return
    length = math.hypot(float(a.x) - float(b.x), float(a.y) - float(b.y))
    if abs(length - unit / (1 << l)) > 1e-9 * unit or abs(el.diam - unit / (1 << l)) > 1e-9 * unit:
        rec.violation(B('edge_length'), {'length': length, 'diam': el.diam, 'wanted': unit / (1 << l)}, case)
        return
    for clause, detail in predicates(dom, mesh):
        rec.violation(B('after/' + clause), detail, case)
        return
    rec.cls('target_' + dom)
    rec.cls('form_' + form)
    rec.cls('level_%d' % l)
    if l >= 3 and 0 < k < (1 << l) - 1:
        rec.nontriv(['seg', dom, piece, l, k, form, case['flip']])
    if len(rec.samples) < 4 and l >= 3:
        rec.sample(case)


def target_jobs(quick):
    jobs = []
    forms = ['tuple', 'list', 'array', 'pipeline']
    n = 0
    for dom in DOMAINS:
        for piece in range(len(PIECES[dom])):
            for l in range(0, 11):
                if l <= 6:
                    ks = list(range(1 << l))
                else:
                    step = max(1, (1 << l) // 64)
                    ks = sorted(set(list(range(0, 1 << l, step)) + [0, (1 << l) - 1, (1 << l) // 2 - 1, (1 << l) // 2]))
                    ks = [(kk * 2654435761 + l) % (1 << l) if (i % 2) else kk for i, kk in enumerate(ks)]
                for k in ks:
                    for flip in (False, True):
                        n += 1
                        form = forms[n % 4]
                        if quick and (n % 3):
                            continue
                        jobs.append({'kind': 'target', 'dom': dom, 'piece': piece, 'l': l, 'k': k, 'flip': flip, 'form': form})
                        if l <= 3 and k in (0, (1 << l) - 1) and dom != 'PiSquare':
                            for f2 in ('tuple', 'list', 'array'):
                                jobs.append({'kind': 'target', 'dom': dom, 'piece': piece, 'l': l, 'k': k, 'flip': flip,
                                             'form': f2, 'ints': True})
    return jobs


def body(case, rec):
    if case.get('kind') == 'target':
        target_body(case, rec)
    else:
        seq_body(case, rec)


def run(ctx):
    bfs(ctx, 4 if ctx.quick else 5)
    for case in ctx.mine(target_jobs(False)):
        target_body(case, ctx.rec)
    pre = st.fixed_dictionaries({'kind': st.just('target'), 'dom': st.sampled_from(list(DOMAINS)), 'piece': st.integers(0, 7),
                                 'l': st.integers(1, 8), 'k': st.integers(0, 10**6), 'flip': st.booleans(),
                                 'form': st.sampled_from(['tuple', 'list', 'array', 'pipeline']), 'ints': st.booleans(),
                                 'pre': st.one_of(st.just([]), st.lists(st.integers(0, 10**6), min_size=1, max_size=12)),
                                 'first': st.one_of(st.none(), st.tuples(st.integers(0, 7), st.integers(0, 6), st.integers(0, 10**6)).map(list))}).map(
        lambda c: dict(c, piece=c['piece'] % len(PIECES[c['dom']]), k=c['k'] % (1 << c['l'])))
    explore(ctx, pre, body, ctx.share(1600 if ctx.quick else 20000), salt=1)
    cases = st.fixed_dictionaries({'kind': st.just('seq'), 'dom': st.sampled_from(list(DOMAINS)),
                                   'seq': st.lists(st.integers(0, 10**6), min_size=1, max_size=40)})
    explore(ctx, cases, body, ctx.share(12000 if ctx.quick else 80000))


def replay(case):
    rec = Recorder()
    body(case, rec)
    return [(v['bucket'], v['detail']) for v in rec.violations]
