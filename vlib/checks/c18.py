"""C18 -- curves are arc-length, closed, piecewise consistent; elements sit on one piece; >= 3 elements per slab."""
import math

import numpy as np
from hypothesis import strategies as st

from vlib import repo, gens, meshdrive
from vlib.common import explore, khash, Recorder
from vlib.geo import Geo
from vlib.meshreal import Live, apply_op, walk_tree, curve as real_curve, _curve_cache

ID = 'C18'
LEVEL = 'exploration'
RULE = ('curve in {5 shipped curves, 3 line/arc curves built as PiecewiseParametrization objects} + generated rectilinear polygons / open polylines with integer or dyadic '
        'vertices at arbitrary offsets (skyline shapes, any start vertex, both orientations; polygons whose corners '
        'fall within 1.2e-5 of one of the constructor\'s 50 derivative sample points are excluded and counted) x '
        'parameters (uniform, break points, +-1 ulp around them, 0, L; scalar and vectorised calls) x initial time '
        'grids with 1..6 slabs x initial space grids = break points + 0..4 extra points (incl. the two-element grid '
        'on one-piece curves) x bisection histories. Oracle: independent geometry from the vertex list (chord length, '
        'side lengths, continuity, closure, eval == piece value), piece identity and containment for every element of '
        'the refinement tree, >= 3 elements around a closed curve at every time, distinct elements share <= 1 end '
        'point. Non-trivial = grid with >= 3 slabs or extra space points, or polygon with >= 6 sides, or history '
        'with >= 3 operations; distinct by case.')
ASSUMPTIONS = ['vlib/geo.py: vertex lists of the shipped curves and (cos, sin) for the circle',
               'the polygon constructor is required to accept integer/dyadic rectilinear vertex chains (all its '
               'end-point arithmetic is exact there) unless a corner lies on a derivative sample point']


def shards(tier):
    return 16


# ------------------------------------------------------------------ generators
def polygons():
    dy = st.sampled_from([1.0, 2.0, 0.5, 3.0, 1.5, 0.25, 4.0])
    def build(ws, hs, x0, y0, rot, rev, closed, cut):
        n = min(len(ws), len(hs))
        ws, hs = ws[:n], hs[:n]
        W = sum(ws)
        V = [(x0, y0), (x0 + W, y0)]
        x = x0 + W
        V.append((x, y0 + hs[-1]))
        for i in range(n - 1, -1, -1):
            x -= ws[i]
            V.append((x, y0 + hs[i]))
            nxt = hs[i - 1] if i > 0 else 0.0
            if nxt != hs[i]:
                V.append((x, y0 + nxt))
        # V ends at (x0, y0) again
        if V[-1] != V[0]:
            V.append(V[0])
        cyc = V[:-1]
        # drop collinear duplicates produced by equal neighbouring heights
        r = rot % len(cyc)
        cyc = cyc[r:] + cyc[:r]
        if rev:
            cyc = cyc[::-1]
        if closed:
            chain = cyc + [cyc[0]]
        else:
            k = 2 + cut % (len(cyc) - 1)
            chain = cyc[:k]
        return {'poly': [list(p) for p in chain], 'closed': closed, 'scribble': bool(rot % 2)}
    return st.builds(build, st.lists(dy, min_size=1, max_size=4), st.lists(dy, min_size=1, max_size=4),
                     st.integers(-6, 6).map(float), st.integers(-6, 6).map(float), st.integers(0, 40), st.booleans(),
                     st.sampled_from([True, True, True, False]), st.integers(0, 40))


def curves():
    return st.one_of(st.sampled_from(['UnitSquare', 'PiSquare', 'LShape', 'Circle', 'UnitInterval', 'Stadium', 'Stadium1', 'Dee']),
                     polygons())


def cases(max_ops):
    enrich = st.lists(st.tuples(st.integers(0, 9), st.sampled_from([3, 4, 6, 8, 9, 2, 10])).map(list), min_size=0, max_size=4)
    us = st.lists(st.floats(0.0, 1.0), min_size=0, max_size=8)
    return st.builds(lambda c, ts, custom, en, ops, u: {'curve': c, 'ts': ts, 'custom': custom, 'enrich': en, 'ops': ops, 'u': u},
                     curves(), gens.time_grids(max_slabs=6), st.booleans(), enrich,
                     gens.histories(max_ops=max_ops, allow=('t', 'x', 'tx')), us)


def sample_conflict(g):
    """True when one of the constructor's derivative sample points lies within 1.2e-5 of an interior corner"""
    pts = np.linspace(1e-4, g.L - 1e-4)
    for c in g.breaks[1:-1]:
        if np.min(np.abs(pts - c)) <= 1.2e-5:
            return True
    return False


# ------------------------------------------------------------------ body
def body(case, rec):
    rec.case()
    spec = case['curve']
    g = Geo(spec)
    scale = 1.0 + (float(np.max(np.abs(g.verts))) if g.verts is not None else 1.0) + g.L
    tol = 1e-12 * scale
    is_poly = not isinstance(spec, str)
    B = lambda clause: 'C18/%s/%s' % ('polygon' if is_poly else spec, clause)
    if is_poly:
        if sample_conflict(g):
            rec.exclude('corner_on_derivative_sample_point')
            return
        if np.any(np.diff(g.breaks) < 1e-3):
            rec.exclude('degenerate_side')
            return
    try:
        _curve_cache.pop(repr(spec), None)
        gam = real_curve(spec)
    except Exception as ex:
        if meshdrive.exc_site(ex) == 'harness':
            raise
        if is_poly:
            rec.exclude('polygon_rejected_by_constructor')
        else:
            rec.violation(B('constructor'), {'error': repr(ex)}, case)
        return
    rec.cls('curve_' + (g.name))
    # --- pieces
    if len(gam.pw_gamma) != g.n_sides or len(gam.pw_start) != g.n_sides + 1:
        rec.violation(B('piece_count'), {'pieces': len(gam.pw_gamma), 'sides': g.n_sides}, case)
        return
    ps = [float(x) for x in gam.pw_start]
    if any(abs(a - b) > tol for a, b in zip(ps, g.breaks)) or bool(gam.closed) != g.closed or \
            abs(float(gam.gamma_length) - g.L) > tol:
        rec.violation(B('piece_lengths'), {'pw_start': ps, 'expected': g.breaks.tolist()}, case)
        return
    L = ps[-1]
    # --- arc length on every piece, piece agrees with the independent geometry
    us = list(case['u']) + [0.0, 1.0, 0.5, 0.123]
    for i in range(g.n_sides):
        a, b = ps[i], ps[i + 1]
        ss = np.array([a + (b - a) * u for u in us])
        with repo.quiet():
            P = np.asarray(gam.pw_gamma[i](ss), dtype=float)
        Q = g.point(i, ss)
        if P.shape != Q.shape or np.max(np.abs(P - Q)) > tol:
            rec.violation(B('piece_points'), {'piece': i, 'max_dev': float(np.max(np.abs(P - Q))) if P.shape == Q.shape else 'shape'}, case)
            return
        for k in range(len(ss) - 1):
            d = float(np.hypot(P[0, k + 1] - P[0, k], P[1, k + 1] - P[1, k]))
            if abs(d - g.chord(i, ss[k], ss[k + 1])) > tol:
                rec.violation(B('arc_length'), {'piece': i, 's': [ss[k], ss[k + 1]], 'dist': d}, case)
                return
    # --- continuity at break points and closure
    for i in range(g.n_sides - 1):
        with repo.quiet():
            p = np.asarray(gam.pw_gamma[i](ps[i + 1]), dtype=float).ravel()
            q = np.asarray(gam.pw_gamma[i + 1](ps[i + 1]), dtype=float).ravel()
        if np.max(np.abs(p - q)) > 1e-14 * scale:
            rec.violation(B('continuity'), {'break': i + 1, 'dev': float(np.max(np.abs(p - q)))}, case)
            return
    # --- eval: whole curve agrees with the piece containing the parameter
    xs = [u * L for u in us]
    for c in ps:
        xs.extend([c, float(np.nextafter(c, -1.0)), float(np.nextafter(c, 1e9))])
        xs.extend([c + d for d in (1e-9, 8e-9, 1e-8, 1e-7, -1e-9, -8e-9, -1e-8, -1e-7)])
    xs = sorted({min(max(x, 0.0), L) for x in xs})
    try:
        with repo.quiet():
            vec = np.asarray(gam.eval(np.array(xs)), dtype=float)
            sca = [np.asarray(gam.eval(x), dtype=float).reshape(2, -1)[:, 0] for x in xs]
    except Exception as ex:
        if meshdrive.exc_site(ex) == 'harness':
            raise
        rec.violation(B('eval_exception'), {'error': repr(ex)}, case)
        return
    for k, x in enumerate(xs):
        want = [g.point(i, x).ravel() for i in g.sides_at(x)]
        for got, how in ((vec[:, k], 'vector'), (sca[k], 'scalar')):
            if min(float(np.max(np.abs(got - w))) for w in want) > tol:
                rec.violation(B('eval_' + how), {'x': x, 'got': got.tolist(), 'expected': want[0].tolist(),
                                                 'at_break': x in ps}, case)
                return
    # integer-typed parameter arrays are legitimate arc lengths too
    ints = np.arange(0, int(math.floor(L)) + 1)
    try:
        with repo.quiet():
            vi = np.asarray(gam.eval(ints), dtype=float)
    except Exception as ex:
        if meshdrive.exc_site(ex) == 'harness':
            raise
        rec.violation(B('eval_exception_int_array'), {'error': repr(ex)}, case)
        return
    for k, x in enumerate(ints):
        want = [g.point(i, float(x)).ravel() for i in g.sides_at(float(x))]
        if vi.shape[0] != 2 or min(float(np.max(np.abs(vi[:, k] - w))) for w in want) > tol:
            rec.violation(B('eval_int_array'), {'x': int(x), 'got': vi[:, k].tolist() if vi.shape[0] == 2 else 'shape', 'expected': want[0].tolist()}, case)
            return
    if g.closed:
        with repo.quiet():
            p0 = np.asarray(gam.eval(0.0), dtype=float).ravel()
            pL = np.asarray(gam.eval(L), dtype=float).ravel()
        if np.max(np.abs(p0 - pL)) > 1e-12 * scale:
            rec.violation(B('closure'), {'start': p0.tolist(), 'end': pL.tolist()}, case)
            return
    # --- mesh on the curve
    xs_grid = None
    if case['custom']:
        pts = set(ps)
        for piece, k in case['enrich']:
            i = piece % g.n_sides
            pts.add(ps[i] + (ps[i + 1] - ps[i]) * k / 12.0)
        xs_grid = sorted(pts)
    mspec = {'kind': 'param', 'curve': spec, 'ts': case['ts'], 'xs': xs_grid}
    try:
        live = Live(mspec)
        for op in case['ops']:
            apply_op(live, op, cap=600)
    except Exception as ex:
        site = meshdrive.exc_site(ex)
        if site == 'harness':
            raise
        rec.violation(B('mesh_exception/%s' % site), {'error': repr(ex)}, case)
        return
    nontriv = len(case['ts']) >= 4 or (xs_grid is not None and len(xs_grid) > len(ps)) or g.n_sides >= 6 or len(case['ops']) >= 3
    if nontriv:
        rec.nontriv(khash(case))
    if xs_grid is not None and len(xs_grid) == 3 and g.n_sides == 1:
        rec.cls('two_element_grid_on_one_piece_curve')
    rec.cls('slabs_%d' % (len(case['ts']) - 1))
    for e in walk_tree(live):
        x0, x1 = e.space_interval
        ok = False
        for i in range(g.n_sides):
            if e.gamma_space is gam.pw_gamma[i]:
                ok = ps[i] <= x0 and x1 <= ps[i + 1]
                break
        if not ok:
            rec.violation(B('piece_assignment'), {'elem': repr(e)}, case)
            return
    if g.closed:
        leaves = list(live.mesh.leaf_elements)
        tcs = sorted({t for e in leaves for t in e.time_interval})
        mids = [0.5 * (a + b) for a, b in zip(tcs[:-1], tcs[1:])]
        for t in mids:
            cover = [e for e in leaves if e.time_interval[0] < t < e.time_interval[1]]
            if len(cover) < 3:
                rec.violation(B('fewer_than_three_around'), {'t': t, 'elements': repr(cover)}, case)
                return
        wrap = lambda x: 0.0 if x == L else x
        for p in range(len(leaves)):
            a = leaves[p]
            ea = {wrap(a.space_interval[0]), wrap(a.space_interval[1])}
            for q in range(p + 1, len(leaves)):
                b = leaves[q]
                if min(a.time_interval[1], b.time_interval[1]) <= max(a.time_interval[0], b.time_interval[0]):
                    continue
                eb = {wrap(b.space_interval[0]), wrap(b.space_interval[1])}
                if len(ea & eb) > 1:
                    rec.violation(B('two_common_end_points'), {'a': repr(a), 'b': repr(b)}, case)
                    return
    if len(rec.samples) < 6 and nontriv:
        rec.sample(case)


def run(ctx):
    n = ctx.share(12000 if ctx.quick else 96000)
    explore(ctx, cases(12 if ctx.quick else 40), body, n)
    if ctx.k == 0:
        # deterministic corner cases named in the property text
        for c in ['Circle', 'UnitSquare', 'PiSquare', 'LShape', 'UnitInterval', 'Stadium', 'Dee']:
            for n_slabs in range(1, 7):
                ts = [k / n_slabs for k in range(n_slabs + 1)]
                for custom, en in ((False, []), (True, []), (True, [[0, 6]]), (True, [[0, 4], [0, 8]])):
                    body({'curve': c, 'ts': ts, 'custom': custom, 'enrich': en, 'ops': [], 'u': [0.25, 0.75]}, ctx.rec)


def replay(case):
    rec = Recorder()
    body(case, rec)
    return [(v['bucket'], v['detail']) for v in rec.violations]
