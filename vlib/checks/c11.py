"""C11 -- Galerkin entries are additive under splitting of either element (metamorphic)."""
import itertools

import numpy as np
from hypothesis import strategies as st

from vlib import repo, pairs, refint
from vlib.common import explore, khash, Recorder
from vlib.geo import geo as get_geo
from vlib.checks.c01 import operator, intervals

ID = 'C11'
LEVEL = 'exploration'
RULE = ('pairs as C01 (target-driven classes incl. the diagonal, histories, leaf/piece) x all 4 x 4 combinations of '
        '{unsplit, two time halves, two space halves, four quarters} for test and trial; pieces are DummyElements as the '
        'estimators build them and, for halves in every other case, real children of a replayed copy of the mesh; both '
        'switches. Oracle: |sum over pieces - unsplit entry| <= 1e-7 sqrt(D_test D_trial). Excluded and counted: pieces '
        'of aspect > 32, close disjoint pieces of size ratio > 8. Non-trivial = causal pair with a proper split and an '
        'entry above 1e-6 sqrt(D D); distinct by (pair, switch, split kinds).')
ASSUMPTIONS = ['metamorphic relation of the code with itself (that is the property); the scale sqrt(D D) is taken from '
               'the independent reference at low resolution (only its order of magnitude matters)']

KINDS = {'none': None, 'time': ['t0', 't1'], 'space': ['x0', 'x1'], 'quarters': ['q0', 'q1', 'q2', 'q3']}


def shards(tier):
    return 16


def split(live, e, kind, real):
    if kind == 'none':
        return [e]
    return [pairs.make_piece(live, e, k, real_children=real and kind in ('time', 'space') and hasattr(e, 'edges'))
            for k in KINDS[kind]]


def body(case, rec):
    rec.case()
    from vlib.meshdrive import exc_site
    try:
        live, test, trial, reason = pairs.realise(case)
    except Exception as ex:
        if exc_site(ex) == 'harness':
            raise
        rec.add('mesh_construction_failed')
        return
    if reason:
        rec.exclude(reason)
        return
    g = get_geo(case['spec']['curve'])
    tt, tx = intervals(test)
    st_, sx = intervals(trial)
    if tt[1] <= st_[0]:
        rec.exclude('acausal_pair')
        return
    sc, tc, near, info = pairs.classify(g, tt, tx, st_, sx)
    if pairs.close_disjoint_excluded(info, sc):
        rec.exclude('short_panel_close_to_much_longer_one')
        return
    scale = (refint.diag(g, tt, tx, 'coarse') * refint.diag(g, st_, sx, 'coarse'))**0.5
    exact = bool(case.get('exact')) and g.polygon
    SL = operator(live, exact)
    cj = dict(case)
    cj['_pair'] = {'test': [tt, tx], 'trial': [st_, sx], 'class': sc + '|' + tc}
    real = bool(case.get('real'))
    try:
        with repo.quiet():
            whole = float(SL.bilform(trial, test))
        for k_test, k_trial in itertools.product(KINDS, KINDS):
            if k_test == 'none' and k_trial == 'none':
                continue
            ptest = split(live, test, k_test, real)
            ptrial = split(live, trial, k_trial, real)
            if not all(pairs.aspect_ok(p) for p in ptest + ptrial):
                rec.exclude('piece_aspect_above_32')
                continue
            skip = False
            for a in ptest:
                for b in ptrial:
                    s2, _, _, i2 = pairs.classify(g, *intervals(a), *intervals(b))
                    if pairs.close_disjoint_excluded(i2, s2):
                        skip = True
            if skip:
                rec.exclude('short_piece_close_to_much_longer_one')
                continue
            with repo.quiet():
                tot = 0.0
                for a in ptest:
                    for b in ptrial:
                        tot += float(SL.bilform(b, a))
            rec.case()
            err = abs(tot - whole) / scale
            rec.cls('%s/%s' % (k_test, k_trial))
            rec.metric('defect_over_sqrtDD', err, cj['_pair'])
            if whole > 1e-6 * scale:
                rec.nontriv([case['spec'], tt, tx, st_, sx, exact, k_test, k_trial])
            if err > 1e-7:
                rec.violation('C11/%s/%s/%s' % ('exact' if exact else 'quad', sc, tc),
                              {'unsplit': whole, 'sum_of_pieces': tot, 'defect_over_sqrtDD': err, 'split': [k_test, k_trial],
                               'class': sc + '|' + tc}, cj)
                return
    except Exception as ex:
        if exc_site(ex) == 'harness':
            raise
        rec.violation('C11/exception/%s/%s' % (exc_site(ex), type(ex).__name__), {'error': repr(ex), 'class': sc + '|' + tc}, cj)
        return
    rec.cls('class_' + sc)
    if len(rec.samples) < 5:
        rec.sample(cj)


def cases():
    causal = ['equal', 'equal', 'touch_after', 'separated', 'overlap']
    add = lambda c, e, r: dict(c, exact=e, real=r)
    tg = st.builds(add, pairs.target_cases(time_classes=causal, curves=pairs.WITH_MIXED), st.booleans(), st.booleans())
    hi = st.builds(add, pairs.history_cases(curves=pairs.WITH_MIXED), st.booleans(), st.booleans())
    return st.one_of(tg, tg, hi)


def run(ctx):
    for case in ctx.mine([dict(c, exact=False, real=False) for c in pairs.far_thin_family() + pairs.corner_piece_family()]):
        body(case, ctx.rec)
    n = ctx.share(6400 if ctx.quick else 64000)
    explore(ctx, cases(), body, n)


def replay(case):
    rec = Recorder()
    body(case, rec)
    return [(v['bucket'], v['detail']) for v in rec.violations]
