"""C10 -- reported edge neighbours are exactly the geometric neighbours (same state space as C02)."""
from vlib import meshdrive
from vlib.common import explore

ID = 'C10'
LEVEL = 'exploration'
RULE = ('[thorough tier additionally: a 300 s atheris/libFuzzer campaign on byte-encoded histories with the same oracle inside the target] '
        'same state space as C02: bounded exhaustive BFS over bisection sequences from six small abstract meshes '
        '(dedup by refinement tree + link flags) and Hypothesis-generated operation histories on abstract grids '
        'and all shipped curves. For every leaf and each of its four edges the reported neighbour set is compared '
        'with the geometric rule of the reference model evaluated on the leaves that exist (positive-length '
        'overlap, x = 0 ~ L when glued); symmetry, <= 2, no stale/duplicate elements, boundary / seam flags. '
        'An (element, edge) pair is one unit of the class histogram; a state is non-trivial when some neighbour is '
        'reached through the parent edge (coarser), through the neighbour edge\'s children (two finer) or across '
        'the seam, which every state beyond depth 1 of a glued mesh does; distinct by tree fingerprint / case.')
ASSUMPTIONS = ['geometric neighbour rule of vlib/meshmodel.py on structural (parent-chain) keys; the agreement of '
               'those keys with the real coordinates is C02']


def shards(tier):
    return 16


def run(ctx):
    depth = 4 if ctx.quick else 5
    subs = ctx.mine(meshdrive.bfs_subtrees())
    meshdrive.bfs(ctx, 'C10', depth, subs)
    for case in ctx.mine(meshdrive.deep_family()):
        meshdrive.run_history(case, ctx.rec, 'C10', cap=2000)
    for case in ctx.mine(meshdrive.large_family()):
        meshdrive.run_history(case, ctx.rec, 'C10', cap=20000)
    n = ctx.share(1600 if ctx.quick else 8000)
    strat = meshdrive.history_cases(max_ops=30 if ctx.quick else 60,
                                    allow=('t', 'x', 'tx', 'unif', 'unifx', 'iso', 'aniso', 'grade'))
    explore(ctx, strat, lambda case, rec: meshdrive.run_history(case, rec, 'C10'), n)
    if not ctx.quick and ctx.k == ctx.n - 1:
        meshdrive.fuzz(ctx, 'C10', 300)


def replay(case):
    return meshdrive.replay_case(case, 'C10')


def coverage_hook(cov, tier):
    cov['transitions'] = cov.get('transitions_bfs', 0) + cov.get('transitions_random', 0)
