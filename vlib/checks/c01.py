"""C01 -- Galerkin entries equal the 4-fold heat-kernel integral (differential against an independent reference)."""
import numpy as np
from hypothesis import strategies as st

from vlib import repo, pairs, refint
from vlib.common import explore, khash, Recorder
from vlib.geo import geo as get_geo

ID = 'C01'
LEVEL = 'exploration'
RULE = ('curve x initial grid (default, k/12-enriched, graded with root ratio <= 4) x pair realised as two coexisting '
        'leaves of one bisected mesh -- target-driven by class (space: identical, touching equal/longer/shorter on one '
        'piece, through the seam, at a corner, nested left/right/interior, disjoint near / any / nearer through the '
        'seam; time: equal, test starts where trial ends, separated, nested, acausal) or drawn by class from a generated '
        'history -- or as (leaf, time half / space half / quarter of a leaf) with DummyElements or real children; both '
        'values of pw_exact on polygons. Oracle: reference integral (analytic in time, graded Gauss in space) at two '
        'resolutions; |bilform - ref| <= 1e-7 sqrt(D_test D_trial). Excluded and counted: aspect > 32, disjoint pairs '
        'within 4 short widths at size ratio > 8, targets that cannot coexist. Non-trivial = causal pair with '
        'ref > 1e-6 sqrt(D D); distinct by (curve, grids, both rectangles, switch).')
ASSUMPTIONS = ['vlib/refint.py: F(z;r) closed form (validated against mpmath.quad of the raw kernel in the self-test) and '
               'graded Gauss-Legendre; a case is decisive only if two resolutions of the reference agree to 1e-9 sqrt(D D)',
               'vlib/geo.py geometry of the curves']


def shards(tier):
    return 16


def selftest():
    """the few lines of refint's time integration against mpmath.quad of the raw kernel (harness error if off)"""
    import mpmath as mp
    mp.mp.dps = 25
    for (a, b, c, d, r) in ((0.5, 1.0, 0.0, 0.5, 0.3), (0.0, 1.0, 0.0, 1.0, 0.7), (0.25, 0.5, 0.0, 1.0, 0.05)):
        G = lambda t, s: mp.exp(-mp.mpf(r)**2 / (4 * (t - s))) / (4 * mp.pi * (t - s)) if t > s else mp.mpf(0)
        if (a, b) == (c, d):
            ex = mp.quad(lambda t: mp.quad(lambda s: G(t, s), [c, t]), [a, b])
        elif a >= d:
            ex = mp.quad(lambda t: mp.quad(lambda s: G(t, s), [c, d]), [a, b])
        else:
            ex = mp.quad(lambda t: mp.quad(lambda s: G(t, s), [c, min(t, d)]), [a, b])
        got = float(refint.K_time(a, b, c, d, np.array([r * r / 4]))[0])
        if abs(got - float(ex)) > 1e-9 * abs(float(ex)):
            raise RuntimeError('refint self-test failed: %r vs %r' % (got, float(ex)))


_SL = {}


def operator(live, exact):
    from src.single_layer import SingleLayerOperator
    key = (id(live), exact)
    if key not in _SL:
        _SL.clear() if len(_SL) > 8 else None
        with repo.quiet():
            SL = SingleLayerOperator(live.mesh, pw_exact=exact)
            # the driver uses one operator object for everything: depending on the mesh size, one of its other public
            # methods is called first (with non-default arguments), which must not change any later result
            leaves = list(live.mesh.leaf_elements)
            mode = len(leaves) % 5
            if mode == 1:
                SL.rhs_vector(lambda t, x: t * 0 + 1.0, gauss_order=[1, 3, 5][len(leaves) % 3])
            elif mode == 2:
                SL.evaluate_vector(float(leaves[0].time_interval[1]), float(0.5 * sum(leaves[0].space_interval)))
            elif mode == 3:
                SL.bilform_matrix(leaves[:2], leaves[:3])
            elif mode == 4:
                SL.potential_vector(float(leaves[-1].time_interval[1]), np.array([[0.31], [0.17]]))
            _SL[key] = (live, SL)
    return _SL[key][1]


def intervals(e):
    return (float(e.time_interval[0]), float(e.time_interval[1])), (float(e.space_interval[0]), float(e.space_interval[1]))


def body(case, rec, tol=1e-7):
    rec.case()
    from vlib.meshdrive import exc_site
    try:
        if case['fam'] == 'boxes':
            live, test, trial, reason = realise_boxes_case(case)
        else:
            live, test, trial, reason = pairs.realise(case)
    except Exception as ex:
        if exc_site(ex) == 'harness':
            raise
        rec.add('mesh_construction_failed')         # mesh properties are C02's business
        return
    if reason:
        rec.exclude(reason)
        return
    cname = case['spec']['curve']
    g = get_geo(cname)
    tt, tx = intervals(test)
    st_, sx = intervals(trial)
    sc, tc, near, info = pairs.classify(g, tt, tx, st_, sx)
    if pairs.close_disjoint_excluded(info, sc):
        rec.exclude('short_panel_close_to_much_longer_one')
        return
    exact = bool(case.get('exact')) and g.polygon
    label = '%s|%s|%s' % (sc, tc, 'near' if near else 'far')
    cj = dict(case)
    cj['_pair'] = {'test': [tt, tx], 'trial': [st_, sx], 'class': label}
    try:
        SL = operator(live, exact)
        with repo.quiet():
            warm = case.get('warm', 0) % 6
            if warm == 1:
                # the driver's other uses of the same object must not leave state behind that changes an entry
                SL.rhs_vector(lambda t, x: t * 0 + 1.0, gauss_order=[1, 3, 5, 7][case.get('warm', 0) // 6 % 4])
            elif warm == 2:
                SL.evaluate_vector(float(tt[1]), float(0.5 * (tx[0] + tx[1])))
            elif warm == 3:
                SL.potential_vector(float(tt[1]), np.array([[0.37], [0.41]]))
            elif warm == 4:
                SL.bilform_matrix(live.leaves()[:3], live.leaves()[:4])
            val = float(SL.bilform(trial, test))
    except Exception as ex:
        if exc_site(ex) == 'harness':
            raise
        rec.violation('C01/exception/%s/%s/%s' % (exc_site(ex), type(ex).__name__, sc), {'error': repr(ex), 'class': label,
                                                                                         'pw_exact': exact}, cj)
        return
    ref = refint.bilform(g, tt, tx, st_, sx, 'fine')
    D = (refint.diag(g, tt, tx) * refint.diag(g, st_, sx))**0.5
    if tc.startswith('acausal'):
        ref2 = 0.0
    else:
        ref2 = refint.bilform(g, tt, tx, st_, sx, 'second')
    if abs(ref - ref2) > 1e-9 * D:
        rec.inconclusive += 1
        rec.cls('inconclusive|' + label)
        return
    err = abs(val - ref) / D
    rec.cls(label)
    rec.cls('curve_' + cname)
    rec.cls('fam_' + case['fam'])
    rec.cls('pw_exact' if exact else 'quadrature')
    rec.metric('err_over_sqrtDD', err, cj['_pair'])
    if ref > 1e-6 * D:
        rec.nontriv([cname, case['spec'].get('xs'), case['spec']['ts'], tt, tx, st_, sx, exact])
    if err > tol:
        rec.violation('C01/%s/%s/%s/%s' % ('exact' if exact else 'quad', sc, tc, 'circle' if g.circle else ('polygon' if g.polygon else 'line_arc')),
                      {'value': val, 'reference': ref, 'err_over_sqrtDD': err, 'class': label, 'ratio': info['ratio'],
                       'curve': cname}, cj)
        return
    if len(rec.samples) < 6 and ref > 1e-6 * D:
        rec.sample(cj)


def extreme_aspect_family():
    """deterministic pairs at the edge of the aspect bound: an element of aspect exactly 32 and a touching / nearby
    element up to three time levels finer that starts at or shortly after its end time (and the mirrored roles), on the
    unit square (default grid), both switches"""
    from vlib.pairs import UU
    out = []
    spec = {'kind': 'param', 'curve': 'UnitSquare', 'ts': [0.0, 1.0], 'xs': None}
    for lxA in (1, 2):
        ltA = 2 * lxA + 5                               # h_x^2 / h_t = 32
        for root, kA in ((0, 0), (0, (1 << lxA) - 1), (3, (1 << lxA) - 1)):
            for dlx in (0, 1, 2):
                lxB = lxA + dlx
                for dlt in (0, 1, 2, 3):
                    ltB = ltA + dlt
                    if (0.5 ** lxB) ** 2 / 0.5 ** ltB > 32:
                        continue
                    for gap in (0, 1, 2):
                        for where in ('right', 'left'):
                            out.append({'fam': 'boxes', 'spec': spec, 'A': [root, lxA, kA, ltA, 0], 'B': [lxB, ltB, gap, where]})
    return out


def realise_boxes_case(case):
    from vlib.pairs import box_from, realise_boxes, UU
    from vlib.meshreal import Live
    probe = Live(case['spec'])
    root, lxA, kA, ltA, ktA = case['A']
    lxB, ltB, gap, where = case['B']
    lenA, lenB = UU >> lxA, UU >> lxB
    pA = root * UU + kA * lenA
    pB = pA + lenA if where == 'right' else pA - lenB
    tA, tB = UU >> ltA, UU >> ltB
    qA = ktA * tA
    qB = qA + tA + gap * tB
    A = box_from(probe.n_t, probe.n_x, qA, ltA, pA, lxA, probe.glued)
    B = box_from(probe.n_t, probe.n_x, qB, ltB, pB, lxB, probe.glued)
    if A is None or B is None:
        return None, None, None, 'class_not_constructible_here'
    if case.get('swap_roles'):
        return realise_boxes(case['spec'], A, B)
    return realise_boxes(case['spec'], B, A)         # test = the later, finer element


def cases():
    ex = st.booleans()
    causal = [c for c in pairs.TIME_CLASSES if not c.startswith('acausal')] * 3 + ['acausal_touch']
    wm = st.integers(0, 23)
    tg = st.builds(lambda c, e, w: dict(c, exact=e, warm=w), pairs.target_cases(time_classes=causal, curves=pairs.WITH_MIXED), ex, wm)
    hi = st.builds(lambda c, e, w: dict(c, exact=e, warm=w), pairs.history_cases(curves=pairs.WITH_MIXED), ex, wm)
    pc = st.builds(lambda c, e, w: dict(c, exact=e, warm=w), pairs.piece_cases(curves=pairs.WITH_MIXED), ex, wm)
    return st.one_of(tg, tg, tg, hi, pc)


def run(ctx):
    if ctx.k == 0:
        selftest()
    fam = extreme_aspect_family()
    jobs = [dict(c, exact=e) for c in fam for e in (True, False)]
    if ctx.quick:
        jobs = [j for k, j in enumerate(jobs) if j['exact'] or (k + ctx.seed) % 4 == 0]
    for case in ctx.mine(jobs):
        body(case, ctx.rec)
    for case in ctx.mine([dict(c, exact=False) for c in pairs.far_thin_family() + pairs.corner_piece_family()]):
        body(case, ctx.rec)
    n = ctx.share(1600 if ctx.quick else 16000)
    explore(ctx, cases(), body, n)


def replay(case):
    rec = Recorder()
    body(case, rec)
    return [(v['bucket'], v['detail']) for v in rec.violations]


def coverage_hook(cov, tier):
    h = cov.get('class_histogram', {})
    want = ['identical', 'touch_eq', 'touch_first_longer', 'touch_second_longer', 'touch_seam', 'touch_corner',
            'nested_left', 'nested_right', 'nested_interior', 'disjoint_same', 'disjoint_diff', 'disjoint_seam_nearer']
    cnt = {w: sum(v for k, v in h.items() if k.startswith(w) and '|' in k) for w in want}
    cov['space_class_counts'] = cnt
    cov['generator_gaps'] = [w for w, v in cnt.items() if v < (20 if tier == 'thorough' else 1)]
