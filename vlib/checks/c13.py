"""C13 -- the symmetric part of the single-layer matrix is positive definite."""
import numpy as np
from hypothesis import strategies as st

from vlib import repo, pairs, gens
from vlib.common import explore, khash, Recorder
from vlib.meshreal import Live, apply_op
from vlib.checks.c01 import operator
from vlib.geo import geo as get_geo

ID = 'C13'
LEVEL = 'exploration'
RULE = ('closed curve (UnitSquare, PiSquare, LShape, Circle; default, k/12-enriched and graded initial grids) x '
        'generated history mixing single bisections, uniform refinements and bursts of local refinement towards the seam, '
        'a corner, the final time (time bisections that would push the chosen leaf above aspect 32 are skipped; leaves '
        'pushed above it by the closure are bisected in space until the bound holds) x switch; the full Galerkin matrix '
        '(20..150 elements quick, ..500 thorough) and, for sampled leaves, the 4x4 block of its quarters as the '
        'hierarchical estimator builds it. Oracle: smallest eigenvalue of D^-1/2 (A + A^T)/2 D^-1/2 > 0.01. Non-trivial = '
        'mesh with >= 3 distinct levels in some axis; distinct by mesh md5 and switch.')
ASSUMPTIONS = ['numpy.linalg.eigvalsh on the symmetrised, diagonally scaled matrix', 'matrix assembled by the serial path '
               '(path equivalence is C17)']


def shards(tier):
    return 16


def cases(max_ops):
    curves = ('UnitSquare', 'PiSquare', 'LShape', 'Circle', 'Stadium', 'Stadium1', 'Dee')
    return st.fixed_dictionaries({
        'spec': pairs.pair_specs(curves=curves),
        'ops': gens.graded_histories(max_ops=max_ops, allow=('t', 'x', 'tx', 'unif')),
        'exact': st.booleans(), 'blocks': st.integers(0, 10**6),
    })


def build_mesh(case, cap, min_n):
    live = Live(case['spec'], min_hx=1e-4)
    # a few uniform refinements first so that the matrix is not tiny
    for op in case['ops']:
        if op[0] == 't' or op[0] == 'tx':
            from vlib.meshreal import select
            e = select(live, op[1])
            hx = e.space_interval[1] - e.space_interval[0]
            ht = e.time_interval[1] - e.time_interval[0]
            if hx * hx / (ht / 2) > 32 and op[0] == 't':
                continue
        if len(live.mesh.leaf_elements) >= cap:
            break
        apply_op(live, op, cap=cap)
    while len(live.mesh.leaf_elements) < min_n and 4 * len(live.mesh.leaf_elements) <= cap:
        apply_op(live, ['unif'], cap=cap)
    # restore the aspect bound where the closure broke it
    for _ in range(50):
        bad = [e for e in live.mesh.leaf_elements if not pairs.aspect_ok(e)]
        if not bad:
            break
        for e in bad:
            if not e.children:
                with repo.quiet():
                    live.mesh.refine_space(e)
                live.model = None
    if live.model is None:
        live.reseed_model()
    return live


def min_eig(A):
    d = np.sqrt(np.diag(A))
    Sm = 0.5 * (A + A.T) / d[:, None] / d[None, :]
    return float(np.min(np.linalg.eigvalsh(Sm)))


def body(case, rec, cap, min_n):
    rec.case()
    from vlib.meshdrive import exc_site
    try:
        live = build_mesh(case, cap, min_n)
    except Exception as ex:
        if exc_site(ex) == 'harness':
            raise
        rec.add('mesh_construction_failed')
        return
    leaves = live.leaves()
    n = len(leaves)
    if n > cap * 1.6 or not all(pairs.aspect_ok(e) for e in leaves):
        rec.exclude('size_or_aspect')
        return
    exact = case['exact'] and get_geo(case['spec']['curve']).polygon
    cj = {k: v for k, v in case.items()}
    try:
        SL = operator(live, exact)
        with repo.quiet():
            A = np.array(SL.bilform_matrix(leaves, leaves, use_mp=False), dtype=float)
    except Exception as ex:
        if exc_site(ex) == 'harness':
            raise
        rec.violation('C13/exception/%s/%s' % (exc_site(ex), type(ex).__name__), {'error': repr(ex)}, cj)
        return
    lam = min_eig(A)
    rec.metric('one_minus_min_eig', 1 - lam)
    rec.metric('elements', n)
    lv_t = len({e.levels[0] for e in leaves})
    lv_x = len({e.levels[1] for e in leaves})
    with repo.quiet():
        md5 = live.mesh.md5()
    if max(lv_t, lv_x) >= 3:
        rec.nontriv([md5, exact])
    rec.cls('curve_' + case['spec']['curve'])
    rec.cls('levels_%d' % min(6, max(lv_t, lv_x)))
    rec.cls('pw_exact' if exact else 'quadrature')
    if not lam > 0.01:
        rec.violation('C13/matrix/%s/%s' % ('exact' if exact else 'quad', 'polygon' if get_geo(case['spec']['curve']).polygon else 'curved'),
                      {'min_eig': lam, 'elements': n}, cj)
        return
    # 4x4 child blocks as the hierarchical estimator builds them
    from src.hierarchical_error_estimator import DummyElement
    k0 = case['blocks']
    worst = 1.0
    for q in range(min(n, 25)):
        e = leaves[(k0 + q * 7) % n]
        ch = DummyElement.uniform_refinement([e])[0]
        if not all(pairs.aspect_ok(c) for c in ch):
            continue
        with repo.quiet():
            S = np.array(SL.bilform_matrix(ch, ch), dtype=float)
        rec.case()
        l4 = min_eig(S)
        worst = min(worst, l4)
        coefs = np.array([[1, 1, -1, -1], [1, -1, 1, -1], [1, -1, -1, 1]], dtype=float)
        sc = [float(c @ S @ c) for c in coefs]
        if not l4 > 0.01 or min(sc) <= 0:
            rec.violation('C13/child_block/%s' % ('exact' if exact else 'quad'),
                          {'min_eig': l4, 'scalings': sc, 'elem': repr(e)}, cj)
            return
    rec.metric('one_minus_min_eig_child_block', 1 - worst)
    if len(rec.samples) < 3:
        rec.sample({'spec': case['spec'], 'n_ops': len(case['ops']), 'elements': n, 'min_eig': lam, 'levels': [lv_t, lv_x]})


def graded_family():
    """deterministic locally graded meshes: uniform refinement, then repeated bisection towards the seam from either
    side, a corner, or the final time on part of the boundary"""
    out = []
    for curve in ('UnitSquare', 'Circle', 'PiSquare', 'LShape'):
        for u in (1, 2):
            for sel, which, kind, n in (('xL', 0, 'x', 6), ('x0', 1, 'x', 6), ('corner', 0, 'x', 5), ('tT', 0, 't', 3),
                                        ('xL', 0, 'x', 4), ('x0', 1, 'x', 4)):
                ops = [['unif']] * u
                reps = 2 if sel in ('xL', 'x0') else 1
                for r in range(reps):
                    ops = ops + [[kind, [sel, r]]] + [[kind, ['last%d' % which, 0]]] * n
                out.append({'spec': {'kind': 'param', 'curve': curve, 'ts': [0.0, 1.0], 'xs': None}, 'ops': ops,
                            'exact': (u == 2 and curve != 'Circle'), 'blocks': 0})
    return out


def run(ctx):
    fam = graded_family()
    mine = ctx.mine(fam if not ctx.quick else fam[::3])
    for case in mine:
        body(case, ctx.rec, 400, 8)
    cap = 120 if ctx.quick else 400
    n = ctx.share(192 if ctx.quick else 640)
    explore(ctx, cases(30 if ctx.quick else 60), lambda c, r: body(c, r, cap, 24), n)


def replay(case):
    rec = Recorder()
    body(case, rec, 400, 24)
    return [(v['bucket'], v['detail']) for v in rec.violations]
