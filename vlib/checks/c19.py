"""C19 -- grading post-processing terminates with every leaf in the parabolic window."""
import signal
import time

from hypothesis import strategies as st

from vlib import repo, gens, meshdrive
from vlib.common import explore, khash, Recorder
from vlib.meshreal import Live, apply_op, check_c02, check_c10, validity_after
from vlib.meshgrade import predict

ID = 'C19'
LEVEL = 'exploration'
RULE = ('(a) every state of the bounded BFS over bisection sequences (depth <= 2 quick / 3 thorough, six small '
        'abstract meshes) x sigma in {1, 1.5, 2}; (b) Hypothesis histories of t/x/tx/uniform operations with '
        'time/space bias in {0.2, 0.5, 0.8} on abstract float grids and all shipped curves (custom initial grids '
        'included), followed by refine_grading(sigma, K=4) and, in a third of the histories and for every ordered pair of exponents on the small states, a second grading of the same mesh object with another exponent. Cases whose graded mesh is predicted (by the sweep on '
        'the reference model) to exceed the leaf cap are excluded and counted. Oracle: returns without exception, '
        'result refines the previous mesh, every leaf has h_t/K < h_x^sigma < K*h_t, result is a 1-irregular '
        'bisection tiling with consistent bookkeeping and neighbours; (c) meshes built to contain a leaf exactly on the '
        'boundary of the window (every dyadic solution of h_x^sigma = K h_t or h_t/K = h_x^sigma with space level <= 5), '
        'which a strict window must refine; (d) level staircases (3..8 combined bisections towards one corner of an element). Non-trivial = the grading changed the mesh; '
        'the histogram also counts cases in which a space-marked element was overtaken by the time closure in the '
        'same sweep (the situation of the repaired defect); distinct by case.')
ASSUMPTIONS = ['uniqueness / minimality of the graded mesh is not claimed by the property and not asserted',
               'a call that exceeds its time budget (50x the model sweep, at least 20 s) is counted as inconclusive']


def shards(tier):
    return 16


class Timeout(Exception):
    pass


def _alarm(signum, frame):
    raise Timeout()


def grade_and_check(live, sigma, rec, case, cap):
    t0 = time.time()
    pred = predict(live, sigma, 4, cap)
    dt = time.time() - t0
    if pred is None:
        rec.exclude('graded_mesh_above_cap')
        return
    n_pred, overtaken = pred
    prev = live.model.copy()
    n_before = len(live.mesh.leaf_elements)
    budget = int(max(20, 50 * dt)) + 1
    old = signal.signal(signal.SIGALRM, _alarm)
    signal.alarm(budget)
    try:
        with repo.quiet():
            if sigma == 2:
                live.mesh.refine_grading()                      # the defaults
            elif sigma == 1.5:
                live.mesh.refine_grading(1.5)                   # positional
            else:
                live.mesh.refine_grading(sigma=sigma, K=4)
    except Timeout:
        rec.inconclusive += 1
        return
    except Exception as ex:
        site = meshdrive.exc_site(ex)
        if site == 'harness':
            raise
        rec.violation('C19/exception/%s/%s' % (site, type(ex).__name__), {'error': repr(ex), 'sigma': sigma}, case)
        return
    finally:
        signal.alarm(0)
        signal.signal(signal.SIGALRM, old)
    n_after = len(live.mesh.leaf_elements)
    if n_after != n_before:
        rec.nontriv(khash(case))
    rec.cls('sigma_%s' % (sigma if sigma in (1.0, 1.5, 2.0) else 'other'))
    if overtaken:
        rec.cls('space_marked_overtaken_by_time_closure')
    rec.metric('leaves_after', n_after)
    # window
    K = 4
    for e in live.mesh.leaf_elements:
        ht = e.time_interval[1] - e.time_interval[0]
        hx = e.space_interval[1] - e.space_interval[0]
        v = hx**sigma
        lo, hi = ht / K, K * ht
        if not (lo < v < hi):
            near = (v != lo and abs(v - lo) <= 1e-12 * v) or (v != hi and abs(v - hi) <= 1e-12 * v)
            if near:
                rec.inconclusive += 1
                continue
            rec.violation('C19/window/%s' % ('too_long_in_time' if v <= lo else 'too_wide_in_space'),
                          {'elem': repr(e), 'h_t': ht, 'h_x': hx, 'sigma': sigma}, case)
            return
    bad = False
    for clause, detail in validity_after(live, prev):
        rec.violation('C19/after/%s' % clause, detail, case)
        bad = True
    if bad:
        return
    for clause, detail in check_c02(live):
        rec.violation('C19/after/%s' % clause, detail, case)
        bad = True
    res, _ = check_c10(live)
    for clause, detail in res:
        rec.violation('C19/after/neighbours_%s' % clause, detail, case)


def boundary_cases():
    """leaves sitting exactly on the boundary of the parabolic window (h_x^sigma == K h_t or h_t / K == h_x^sigma in
    exact dyadic arithmetic) on unit-size roots, for every solution with space level <= 5 and time level <= 12"""
    out = []
    specs = [{'kind': 'param', 'curve': 'UnitSquare', 'ts': [0.0, 1.0], 'xs': None},
             {'kind': 'abstract', 'glue': False, 'xs': [0.0, 1.0, 2.0], 'ts': [0.0, 1.0]},
             {'kind': 'param', 'curve': 'LShape', 'ts': [0.0, 1.0], 'xs': [0.0, 1.0, 2.0, 3.0, 4.0, 5.0, 6.0, 7.0, 8.0]}]
    for sigma in (1.0, 1.5, 2.0):
        for lx in range(0, 6):
            e = sigma * lx
            if e != int(e):
                continue
            for lt in (int(e) + 2, int(e) - 2):
                if 0 <= lt <= 12:
                    for si, spec in enumerate(specs):
                        for pos in (0, 1):
                            out.append({'kind': 'boundary', 'mesh': spec, 'sigma': sigma, 'lt': lt, 'lx': lx, 'pos': pos})
    return out


def staircase_cases():
    """level staircases: k successive combined (time + space) bisections towards one corner of an element, so that the
    grading sweep meets leaves that it bisects twice in one sweep"""
    out = []
    specs = [{'kind': 'param', 'curve': 'UnitSquare', 'ts': [0.0, 1.0], 'xs': None},
             {'kind': 'abstract', 'glue': False, 'xs': [0.0, 1.0], 'ts': [0.0, 1.0]},
             {'kind': 'abstract', 'glue': True, 'xs': [0.0, 1.0, 2.0], 'ts': [0.0, 1.0]},
             {'kind': 'param', 'curve': 'Circle', 'ts': [0.0, 0.5, 1.0], 'xs': None}]
    for spec in specs:
        for sel in ('t0', 'x0', 'xL'):
            for K in range(4):
                for k in (3, 5, 6, 8):
                    for sigma in (1.0, 1.5, 2.0):
                        ops = [['tx', [sel, 0]]] + [['tx', ['last%d' % K, 0]]] * k
                        out.append({'kind': 'history', 'mesh': spec, 'ops': ops, 'sigma': sigma, 'bias': 0.5})
    return out


def body(case, rec, cap):
    rec.case()
    try:
        if case['kind'] == 'boundary':
            from vlib import pairs
            probe = Live(case['mesh'])
            lt, lx = case['lt'], case['lx']
            kt = ((1 << lt) - 1) if case['pos'] else 0
            kx = ((1 << lx) // 2) if case['pos'] else 0
            tg = pairs.box_from(probe.n_t, probe.n_x, kt * (pairs.UU >> lt), lt, kx * (pairs.UU >> lx), lx, probe.glued)
            live, ok = pairs.mesh_with(case['mesh'], [tg], max_leaves=cap)
            if not ok:
                rec.exclude('boundary_target_not_reached')
                return
            rec.cls('leaf_on_window_boundary')
        elif case['kind'] == 'bfs':
            live, _ = meshdrive.replay_seq(case['mesh'], case['seq'])
        else:
            live = Live(case['mesh'])
            for op in case['ops']:
                info = apply_op(live, op, cap=cap // 4)
                if info['mode'] == 'skipped':
                    rec.exclude('size_cap_in_history')
    except Exception as ex:
        if meshdrive.exc_site(ex) == 'harness':
            raise
        rec.add('history_failed_before_grading')     # C02's business
        return
    rec.cls('mesh_' + (case['mesh'].get('curve') or 'abstract'))
    nv = len(rec.violations)
    grade_and_check(live, float(case['sigma']), rec, case, cap)
    again = case.get('again')
    if again and len(rec.violations) == nv:
        # a graded mesh is a reachable mesh: a second grading of the SAME mesh object with another exponent (after
        # further bisections, or directly) must put every leaf into the window of that exponent
        try:
            live.reseed_model()
            for op in again[1]:
                apply_op(live, op, cap=cap // 2)
        except Exception as ex:
            if meshdrive.exc_site(ex) == 'harness':
                raise
            rec.add('history_failed_before_grading')
            return
        rec.cls('second_grading_of_one_mesh')
        grade_and_check(live, float(again[0]), rec, case, cap)
    if len(rec.samples) < 6 and case['kind'] == 'history' and len(case['ops']) >= 3:
        rec.sample(case)


def cases(max_ops):
    def build(spec, bias, sigma, data_ops, again):
        return {'kind': 'history', 'mesh': spec, 'ops': data_ops, 'sigma': sigma, 'bias': bias, 'again': again}
    sig = st.one_of(st.sampled_from([1.0, 1.5, 2.0, 1.0, 2.0]), st.floats(1.0, 2.0).map(lambda v: round(v, 3)))
    again = st.one_of(st.none(), st.none(),
                      st.tuples(sig, gens.histories(max_ops=4, allow=('t', 'x', 'tx'))).map(list))
    return st.sampled_from([0.2, 0.5, 0.8]).flatmap(
        lambda bias: st.builds(build, gens.mesh_specs(), st.just(bias), sig,
                               gens.histories(max_ops=max_ops, allow=('t', 'x', 'tx', 'unif'), time_bias=bias), again))


def run(ctx):
    cap = 1500 if ctx.quick else 5000
    depth = 2 if ctx.quick else 3
    # (a) BFS states
    seqs = []
    for mno, spec in enumerate(meshdrive.BFS_MESHES):
        frontier = [[]]
        for d in range(depth + 1):
            nxt = []
            for seq in frontier:
                seqs.append((mno, seq))
                if d < depth:
                    live, _ = meshdrive.replay_seq(spec, seq)
                    for i in range(len(live.mesh.leaf_elements)):
                        for ax in (0, 1):
                            nxt.append(seq + [[i, ax]])
            frontier = nxt
    jobs = [(mno, seq, s, None) for mno, seq in seqs for s in (1.0, 1.5, 2.0)]
    # two gradings of one mesh object with different exponents (every ordered pair), on the states of depth <= 1
    jobs += [(mno, seq, s, [s2, []]) for mno, seq in seqs if len(seq) <= 1
             for s in (1.0, 1.5, 2.0) for s2 in (1.0, 1.5, 2.0) if s2 != s]
    for mno, seq, s, again in ctx.mine(jobs):
        body({'kind': 'bfs', 'mesh': meshdrive.BFS_MESHES[mno], 'seq': seq, 'sigma': s, 'again': again}, ctx.rec, cap)
    for case in ctx.mine(boundary_cases()):
        body(case, ctx.rec, cap)
    for case in ctx.mine(staircase_cases()):
        body(case, ctx.rec, 5000)
    # (b) histories
    n = ctx.share(4000 if ctx.quick else 16000)
    explore(ctx, cases(25 if ctx.quick else 200), lambda c, r: body(c, r, cap), n)


def replay(case):
    rec = Recorder()
    body(case, rec, 5000)
    return [(v['bucket'], v['detail']) for v in rec.violations]
