"""Size predictor for refine_grading: the sweep described in the property (classify every leaf by the window
h_t/K < h_x^sigma < K h_t, bisect the too-long ones in time, the too-wide ones in space, with forced repair,
until nothing is marked), run on a copy of the reference model with the real element sizes.  Used only as a
guard against meshes that explode and to measure non-triviality -- never as an oracle for the outcome."""


def sizes(live, b):
    (t0, t1), (x0, x1) = live.real_box(b)
    return t1 - t0, x1 - x0


def predict(live, sigma, K, cap):
    """returns (predicted number of leaves, number of space-marked boxes that the time closure refined first)
    or None when the mesh would exceed `cap` leaves"""
    m = live.model.copy()
    overtaken = 0
    for sweep in range(200):
        mt, mx = [], []
        for b in m.leaves.values():
            ht, hx = sizes(live, b)
            if ht / K >= hx**sigma:
                mt.append(b)
            elif hx**sigma >= K * ht:
                mx.append(b)
        if not mt and not mx:
            return len(m.leaves), overtaken
        mt.sort(key=lambda b: b.lt)
        for b in mt:
            if b.key in m.leaves:
                m.refine(b.key, 0)
            if len(m.leaves) > cap:
                return None
        mx.sort(key=lambda b: b.lx)
        for b in mx:
            if b.key in m.leaves:
                m.refine(b.key, 1)
            else:
                overtaken += 1
            if len(m.leaves) > cap:
                return None
    return None
