"""Independent evaluation of Slobodeckij seminorms (nothing imported from /repo).

exact_h12 / exact_h14: closed forms in exact rational arithmetic for polynomials on an interval.
ref_double: numerical reference of  int int (F(x) - G(y))^2 / |P(x) - Q(y)|^2  over a rectangle of parameters,
            for two (possibly identical) smooth pieces; blocks cut at given interfaces, graded towards the
            touching point(s), staggered node counts so that x != y.
"""
from fractions import Fraction

import numpy as np
from numpy.polynomial.legendre import leggauss


def _q_coeffs(c):
    """(f(u) - f(v)) / (u - v) for f = sum c_k u^k  as a dict {(i, j): coeff} of u^i v^j"""
    q = {}
    for k, ck in enumerate(c):
        if k == 0 or ck == 0:
            continue
        for i in range(k):
            key = (i, k - 1 - i)
            q[key] = q.get(key, 0) + ck
    return q


def _square(q):
    out = {}
    items = list(q.items())
    for (i1, j1), a in items:
        for (i2, j2), b in items:
            key = (i1 + i2, j1 + j2)
            out[key] = out.get(key, 0) + a * b
    return out


def exact_h12(c, h):
    """int_0^h int_0^h ((f(u) - f(v)) / (u - v))^2 du dv, f = sum c_k u^k; c, h Fractions -> Fraction"""
    q2 = _square(_q_coeffs(c))
    tot = Fraction(0)
    for (i, j), a in q2.items():
        tot += a * h**(i + 1) * h**(j + 1) / ((i + 1) * (j + 1))
    return tot


def exact_h14_over_sqrt_h(c, h):
    """(1/sqrt h) * int int (f(x)-f(y))^2 / |x-y|^{3/2} over [0,h]^2  -> Fraction
    = 2 int_0^h int_0^s q(s, s-u)^2 u^{1/2} du ds"""
    q = _q_coeffs(c)
    # substitute v = s - u : v^j = sum_m binom(j, m) s^(j-m) (-u)^m
    from math import comb
    qs = {}
    for (i, j), a in q.items():
        for m in range(j + 1):
            key = (i + j - m, m)
            qs[key] = qs.get(key, 0) + a * comb(j, m) * (-1)**m
    q2 = _square(qs)
    tot = Fraction(0)
    for (i, j), a in q2.items():
        # int_0^h s^i int_0^s u^(j+1/2) du ds = h^(i+j+5/2) / ((j+3/2)(i+j+5/2))
        tot += a * h**(i + j + 2) / (Fraction(2 * j + 3, 2) * Fraction(2 * (i + j) + 5, 2))
    return 2 * tot


_GL = {}


def gl(p):
    if p not in _GL:
        x, w = leggauss(p)
        _GL[p] = (0.5 * (x + 1), 0.5 * w)
    return _GL[p]


def graded_breaks(lo, hi, towards, ratio, levels):
    """break points of [lo, hi] graded geometrically towards the points in `towards` (each inside [lo, hi])"""
    pts = {lo, hi}
    for c in towards:
        c = min(max(c, lo), hi)
        pts.add(c)
        for side in (-1, 1):
            ext = (c - lo) if side < 0 else (hi - c)
            d = ext
            for _ in range(levels):
                d *= ratio
                if d <= 0:
                    break
                pts.add(c + side * d)
    arr = np.array(sorted(pts))
    return arr[np.concatenate([[True], np.diff(arr) > 0])]


def composite(breaks, p):
    x, w = gl(p)
    h = np.diff(breaks)
    return (breaks[:-1, None] + h[:, None] * x[None, :]).ravel(), (h[:, None] * w[None, :]).ravel()


def ref_double(F, P, xa, xb, G, Q, ya, yb, touch, ratio=0.25, levels=15, p=14):
    """int_{xa}^{xb} int_{ya}^{yb} (F(x) - G(y))^2 / |P(x) - Q(y)|^2 dy dx.
    touch: list of (x*, y*) parameter pairs where P(x*) == Q(y*) (the integrand is bounded but not smooth there);
    for identical pieces (diagonal) pass touch='diag': the x-interval is cut into panels and the y-rule is graded
    towards y = x on both sides, with x != y guaranteed by construction."""
    if touch == 'diag':
        X, WX = composite(np.linspace(xa, xb, 9), p)
        u, wu = composite(np.linspace(0.0, 1.0, 5), p + 1)     # smooth on each side of the diagonal
        tot = 0.0
        for x, wx in zip(X, WX):
            for lo, hi in ((ya, x), (x, yb)):
                if hi - lo <= 0:
                    continue
                if lo == x:
                    y = x + (hi - x) * u
                else:
                    y = x - (x - lo) * u
                wy = (hi - lo) * wu
                num = (F(np.full_like(y, x)) - G(y))**2
                PX = P(np.full_like(y, x))
                QY = Q(y)
                den = (PX[0] - QY[0])**2 + (PX[1] - QY[1])**2
                tot += wx * float(np.sum(wy * num / den))
        return tot
    bx = graded_breaks(xa, xb, [t[0] for t in touch], ratio, levels)
    by = graded_breaks(ya, yb, [t[1] for t in touch], ratio, levels)
    X, WX = composite(bx, p)
    Y, WY = composite(by, p + 1)
    PX = P(X)
    QY = Q(Y)
    den = (PX[0][:, None] - QY[0][None, :])**2 + (PX[1][:, None] - QY[1][None, :])**2
    num = (F(X)[:, None] - G(Y)[None, :])**2
    return float(WX @ (num / den) @ WY)
