"""Runs the real driver example.py (runpy) with ErrorEstimator.residual wrapped: at every adaptive loop the residual
handed to the estimators is integrated over every element with the independent rule of vlib/c03lib.py; stops after the
requested number of loops.   usage: python -m vlib.c03_example <args.json> <out.json>"""
import json
import os
import runpy
import sys


class Done(Exception):
    pass


def main():
    cfg = json.load(open(sys.argv[1]))
    out_path = sys.argv[2]
    from vlib import repo, c03lib
    import multiprocessing as mp
    os.chdir(cfg['cwd'])
    import src.error_estimator as ee
    results = []
    orig = ee.ErrorEstimator.residual

    def wrapped(self, elems, Phi, SL, M0u0=None, g=None, SL_exact_eval=False):
        res = orig(self, elems, Phi, SL, M0u0, g, SL_exact_eval)
        rows = c03lib.element_report(res, list(elems), point_budget=cfg['point_budget'])
        results.append({'n': len(elems), 'rows': rows,
                        'elems': [[list(map(float, e.time_interval)), list(map(float, e.space_interval))] for e in elems]})
        json.dump(results, open(out_path, 'w'))
        if len(results) >= cfg['loops'] or isinstance(rows, str):
            raise Done()
        return res

    ee.ErrorEstimator.residual = wrapped
    mp.cpu_count = lambda: cfg.get('workers', 2)
    sys.argv = ['example.py'] + cfg['argv']
    try:
        with repo.quiet():
            runpy.run_path(os.path.join(repo.REPO, 'example.py'), run_name='__main__')
    except Done:
        pass
    json.dump(results, open(out_path, 'w'))


if __name__ == '__main__':
    main()
