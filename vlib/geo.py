"""Independent geometry of the supported curves (nothing imported from /repo): vertex lists of the polygons,
(cos, sin) for the circle; side lookup, points, nearest parameter."""
import math

import numpy as np

PI = math.pi
VERTS = {
    'UnitSquare': [(0, 0), (1, 0), (1, 1), (0, 1), (0, 0)],
    'PiSquare': [(0, 0), (PI, 0), (PI, PI), (0, PI), (0, 0)],
    'LShape': [(0, 0), (0, -1), (1, -1), (1, 1), (-1, 1), (-1, 0), (0, 0)],
    'UnitInterval': [(0, 0), (1, 0)],
}


def _line(p0, p1):
    return {'kind': 'line', 'p0': p0, 'p1': p1, 'len': math.hypot(p1[0] - p0[0], p1[1] - p0[1])}


def _arc(centre, r, th0, sweep):
    """arc of radius r about centre from angle th0 over the signed angle sweep"""
    return {'kind': 'arc', 'c': centre, 'r': r, 'th0': th0, 'sgn': 1.0 if sweep > 0 else -1.0, 'len': r * abs(sweep)}


# Curves mixing straight pieces and circular arcs (arc-length parametrised; accepted by the repository's
# PiecewiseParametrization like any other list of pieces): the joints have sides that are not mirror images.
MIXED = {
    # two segments of length pi joined by half circles of radius 1 (C^1 joints)
    'Stadium': [_line((0.0, 0.0), (PI, 0.0)), _arc((PI, 1.0), 1.0, -PI / 2, PI),
                _line((PI, 2.0), (0.0, 2.0)), _arc((0.0, 1.0), 1.0, PI / 2, PI)],
    # the same with all four pieces of length 1 (radius 1/pi): break points 0, 1, 2, 3, 4
    'Stadium1': [_line((0.0, 0.0), (1.0, 0.0)), _arc((1.0, 1 / PI), 1 / PI, -PI / 2, PI),
                 _line((1.0, 2 / PI), (0.0, 2 / PI)), _arc((0.0, 1 / PI), 1 / PI, PI / 2, PI)],
    # a diameter of length 2 closed by a half circle of radius 1 (right-angle corners between a segment and an arc)
    'Dee': [_line((-1.0, 0.0), (1.0, 0.0)), _arc((0.0, 0.0), 1.0, 0.0, PI)],
}


class Geo:
    def __init__(self, name):
        """name: shipped curve name, a name in MIXED, or {'poly': [[x, y], ...], 'closed': bool}"""
        self.name = name if isinstance(name, str) else 'poly'
        self.pieces = None
        self.polygon = False
        if name == 'Bessel':
            # closed convex curve with tangent angle s + 0.45 sin 2s (arc-length parametrised, curvature 1 + 0.9 cos 2s
            # varies along the single piece); only used where no reference geometry is needed (C20)
            self.circle = False
            self.closed = True
            self.L = 2 * PI
            self.breaks = np.array([0.0, self.L])
            self.n_sides = 1
            self.verts = None
            self.pieces = [{'kind': 'smooth', 'len': self.L}]
            return
        if isinstance(name, str) and name in MIXED:
            self.circle = False
            self.closed = True
            self.pieces = MIXED[name]
            br = [0.0]
            for pc in self.pieces:
                br.append(br[-1] + pc['len'])
            self.breaks = np.array(br)
            self.L = float(br[-1])
            self.n_sides = len(self.pieces)
            self.verts = None
            return
        if name in ('Circle', 'Circle2'):
            self.circle = True
            self.R = 1.0 if name == 'Circle' else 2.0          # Circle2: one piece of length 4 pi (radius 2)
            self.L = 2 * PI * self.R
            self.closed = True
            self.breaks = np.array([0.0, self.L])
            self.verts = None
            self.n_sides = 1
            return
        self.circle = False
        self.polygon = True
        if isinstance(name, str):
            V = VERTS[name]
            self.closed = name != 'UnitInterval'
        else:
            V = [tuple(p) for p in name['poly']]        # ('scribble' only concerns how the real object is built)
            self.closed = bool(name['closed'])
        self.verts = np.array(V, dtype=float)
        seg = np.linalg.norm(np.diff(self.verts, axis=0), axis=1)
        br = [0.0]
        for s in seg:                       # cumulative sums in the natural order
            br.append(br[-1] + float(s))
        self.breaks = np.array(br)
        self.L = float(self.breaks[-1])
        self.n_sides = len(seg)
        self.dirs = np.diff(self.verts, axis=0) / seg[:, None]

    def kind(self, side):
        """what the self-interaction of an element on this piece depends on besides its size"""
        if self.circle:
            return 'circle' if self.R == 1.0 else 'arc%r' % self.R
        if self.pieces is not None and self.pieces[side]['kind'] == 'arc':
            r = self.pieces[side]['r']
            return 'circle' if r == 1.0 else 'arc%r' % r
        if self.pieces is not None and self.pieces[side]['kind'] == 'smooth':
            raise NotImplementedError('no reference geometry for the smooth curve')
        return 'straight'

    def straight(self, side):
        return self.kind(side) == 'straight'

    def side_of(self, a, b=None):
        """index of the side containing [a, b] (or the parameter a; the later side at a break point)"""
        if self.circle:
            return 0
        m = a if b is None else 0.5 * (a + b)
        for i in range(self.n_sides):
            if self.breaks[i] <= m <= self.breaks[i + 1]:
                if b is None and m == self.breaks[i + 1] and i + 1 < self.n_sides:
                    continue
                return i
        raise ValueError((a, b))

    def sides_at(self, x):
        """all sides whose closed parameter interval contains x"""
        if self.circle:
            return [0]
        return [i for i in range(self.n_sides) if self.breaks[i] <= x <= self.breaks[i + 1]]

    def point(self, side, s):
        s = np.asarray(s, dtype=float)
        if self.circle:
            return np.array([self.R * np.cos(s / self.R), self.R * np.sin(s / self.R)])
        if self.pieces is not None:
            pc = self.pieces[side]
            u = s - self.breaks[side]
            if pc['kind'] == 'line':
                d = ((pc['p1'][0] - pc['p0'][0]) / pc['len'], (pc['p1'][1] - pc['p0'][1]) / pc['len'])
                return np.array([pc['p0'][0] + d[0] * u, pc['p0'][1] + d[1] * u])
            th = pc['th0'] + pc['sgn'] * u / pc['r']
            return np.array([pc['c'][0] + pc['r'] * np.cos(th), pc['c'][1] + pc['r'] * np.sin(th)])
        p0 = self.verts[side]
        d = self.dirs[side]
        u = s - self.breaks[side]
        return np.array([p0[0] + d[0] * u, p0[1] + d[1] * u])

    def point_any(self, x):
        return self.point(self.side_of(float(x)), x)

    def nearest_param(self, side_x, x, side_y, c, d):
        """for each parameter x (on side_x) the parameter in [c, d] (on side_y) nearest in the plane"""
        x = np.asarray(x, dtype=float)
        if self.circle:
            best = None
            bd = None
            for sh in (-self.L, 0.0, self.L):
                cand = np.clip(x + sh, c, d)
                dist = np.abs(np.angle(np.exp(1j * (cand - x) / self.R)))
                if best is None:
                    best, bd = cand, dist
                else:
                    m = dist < bd
                    best = np.where(m, cand, best)
                    bd = np.where(m, dist, bd)
            return best
        P = self.point(side_x, x)
        if self.pieces is not None:
            pc = self.pieces[side_y]
            if pc['kind'] == 'line':
                dv = ((pc['p1'][0] - pc['p0'][0]) / pc['len'], (pc['p1'][1] - pc['p0'][1]) / pc['len'])
                u = (P[0] - pc['p0'][0]) * dv[0] + (P[1] - pc['p0'][1]) * dv[1] + self.breaks[side_y]
                return np.clip(u, c, d)
            # nearest point of an arc: the angle of P about the centre, measured from the middle of [c, d]
            mid = 0.5 * (c + d)
            th_mid = pc['th0'] + pc['sgn'] * (mid - self.breaks[side_y]) / pc['r']
            ang = np.arctan2(P[1] - pc['c'][1], P[0] - pc['c'][0])
            delta = np.angle(np.exp(1j * (ang - th_mid))) * pc['sgn']
            return np.clip(mid + pc['r'] * delta, c, d)
        p0 = self.verts[side_y]
        dvec = self.dirs[side_y]
        u = (P[0] - p0[0]) * dvec[0] + (P[1] - p0[1]) * dvec[1] + self.breaks[side_y]
        return np.clip(u, c, d)

    def chord(self, side, s1, s2):
        """Euclidean distance of two points of one piece"""
        if self.circle:
            return 2 * self.R * abs(math.sin(abs(s2 - s1) / (2 * self.R)))
        if self.pieces is not None and self.pieces[side]['kind'] == 'arc':
            r = self.pieces[side]['r']
            return 2 * r * abs(math.sin(abs(s2 - s1) / (2 * r)))
        return abs(s2 - s1)


_cache = {}


ALIAS = {'CircleGuarded': 'Circle'}      # same geometry; the real object's callable refuses parameters outside [0, L]


def geo(name):
    name = ALIAS.get(name, name) if isinstance(name, str) else name
    key = name if isinstance(name, str) else repr(name)
    if key not in _cache:
        _cache[key] = Geo(name)
    return _cache[key]
