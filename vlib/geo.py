"""Independent geometry of the supported curves (nothing imported from /repo): vertex lists of the polygons,
(cos, sin) for the circle; side lookup, points, nearest parameter."""
import math

import numpy as np

PI = math.pi
VERTS = {
    'UnitSquare': [(0, 0), (1, 0), (1, 1), (0, 1), (0, 0)],
    'PiSquare': [(0, 0), (PI, 0), (PI, PI), (0, PI), (0, 0)],
    'LShape': [(0, 0), (0, -1), (1, -1), (1, 1), (-1, 1), (-1, 0), (0, 0)],
    'UnitInterval': [(0, 0), (1, 0)],
}


class Geo:
    def __init__(self, name):
        """name: shipped curve name or {'poly': [[x, y], ...], 'closed': bool}"""
        self.name = name if isinstance(name, str) else 'poly'
        if name == 'Circle':
            self.circle = True
            self.L = 2 * PI
            self.closed = True
            self.breaks = np.array([0.0, self.L])
            self.verts = None
            self.n_sides = 1
            return
        self.circle = False
        if isinstance(name, str):
            V = VERTS[name]
            self.closed = name != 'UnitInterval'
        else:
            V = [tuple(p) for p in name['poly']]        # ('scribble' only concerns how the real object is built)
            self.closed = bool(name['closed'])
        self.verts = np.array(V, dtype=float)
        seg = np.linalg.norm(np.diff(self.verts, axis=0), axis=1)
        br = [0.0]
        for s in seg:                       # cumulative sums in the natural order
            br.append(br[-1] + float(s))
        self.breaks = np.array(br)
        self.L = float(self.breaks[-1])
        self.n_sides = len(seg)
        self.dirs = np.diff(self.verts, axis=0) / seg[:, None]

    def side_of(self, a, b=None):
        """index of the side containing [a, b] (or the parameter a; the later side at a break point)"""
        if self.circle:
            return 0
        m = a if b is None else 0.5 * (a + b)
        for i in range(self.n_sides):
            if self.breaks[i] <= m <= self.breaks[i + 1]:
                if b is None and m == self.breaks[i + 1] and i + 1 < self.n_sides:
                    continue
                return i
        raise ValueError((a, b))

    def sides_at(self, x):
        """all sides whose closed parameter interval contains x"""
        if self.circle:
            return [0]
        return [i for i in range(self.n_sides) if self.breaks[i] <= x <= self.breaks[i + 1]]

    def point(self, side, s):
        s = np.asarray(s, dtype=float)
        if self.circle:
            return np.array([np.cos(s), np.sin(s)])
        p0 = self.verts[side]
        d = self.dirs[side]
        u = s - self.breaks[side]
        return np.array([p0[0] + d[0] * u, p0[1] + d[1] * u])

    def point_any(self, x):
        return self.point(self.side_of(float(x)), x)

    def nearest_param(self, side_x, x, side_y, c, d):
        """for each parameter x (on side_x) the parameter in [c, d] (on side_y) nearest in the plane"""
        x = np.asarray(x, dtype=float)
        if self.circle:
            best = None
            bd = None
            for sh in (-self.L, 0.0, self.L):
                cand = np.clip(x + sh, c, d)
                dist = np.abs(np.angle(np.exp(1j * (cand - x))))
                if best is None:
                    best, bd = cand, dist
                else:
                    m = dist < bd
                    best = np.where(m, cand, best)
                    bd = np.where(m, dist, bd)
            return best
        P = self.point(side_x, x)
        p0 = self.verts[side_y]
        dvec = self.dirs[side_y]
        u = (P[0] - p0[0]) * dvec[0] + (P[1] - p0[1]) * dvec[1] + self.breaks[side_y]
        return np.clip(u, c, d)

    def chord(self, side, s1, s2):
        """Euclidean distance of two points of one piece"""
        if self.circle:
            return 2 * abs(math.sin(abs(s2 - s1) / 2))
        return abs(s2 - s1)


_cache = {}


def geo(name):
    key = name if isinstance(name, str) else repr(name)
    if key not in _cache:
        _cache[key] = Geo(name)
    return _cache[key]
