"""Independent reference integrals for the single-layer heat operator (nothing imported from /repo).

Time is integrated analytically:  F(z; r) = (1/4pi) [ (z + rho) E1(rho/z) - z exp(-rho/z) ],  rho = r^2/4,  F = 0 for z <= 0,
so that F' = g (= int_0^z G), F'' = G, F(0+) = F'(0+) = 0 and

    int_a^b int_c^d G(t - s, r) ds dt = F(b-c) - F(a-c) - F(b-d) + F(a-d)
    int_c^d G(t - s, r) ds           = g(t-c) - g(t-d),      g(z) = E1(rho/z) / 4pi.

Space: outer composite Gauss-Legendre graded geometrically towards the end points of the test interval and towards
the points nearest to the trial interval's end points; for each outer node an inner composite rule graded on both
sides of the point of the trial interval nearest (in the plane) to gamma(x).
"""
import numpy as np
from scipy.special import exp1
from numpy.polynomial.legendre import leggauss

FPI = 1.0 / (4.0 * np.pi)


def F(z, rho):
    if z <= 0:
        return np.zeros_like(rho)
    u = rho / z
    return FPI * ((z + rho) * exp1(u) - z * np.exp(-u))


def K_time(a, b, c, d, rho):
    return (F(b - c, rho) - F(a - c, rho)) - (F(b - d, rho) - F(a - d, rho))


def g_time(t, c, d, rho):
    out = np.zeros_like(rho)
    if t - c > 0:
        out = out + FPI * exp1(rho / (t - c))
    if t - d > 0:
        out = out - FPI * exp1(rho / (t - d))
    return out


_GL = {}


def gl(p):
    if p not in _GL:
        x, w = leggauss(p)
        _GL[p] = (0.5 * (x + 1), 0.5 * w)
    return _GL[p]


def composite_nodes(breaks, p):
    x, w = gl(p)
    h = np.diff(breaks)
    nodes = (breaks[:-1, None] + h[:, None] * x[None, :]).ravel()
    weights = (h[:, None] * w[None, :]).ravel()
    return nodes, weights


def graded_panels(lo, hi, crit, sigma, floor):
    L = hi - lo
    pts = {lo, hi}
    for c in crit:
        c = min(max(c, lo), hi)
        pts.add(c)
        for side in (-1, 1):
            ext = (c - lo) if side < 0 else (hi - c)
            if ext <= 0:
                continue
            d = ext
            while d > floor * L:
                d *= sigma
                pts.add(c + side * d)
    pts = np.array(sorted(pts))
    keep = np.concatenate([[True], np.diff(pts) > 0])
    return pts[keep]


_UNIT = {}


def graded_unit(sigma, nlev, p):
    key = (sigma, nlev, p)
    if key not in _UNIT:
        br = [1.0]
        for _ in range(nlev):
            br.append(br[-1] * sigma)
        br.append(0.0)
        _UNIT[key] = composite_nodes(np.array(br[::-1]), p)
    return _UNIT[key]


RES = {'fine': (0.3, 17, 20), 'second': (0.2, 14, 16), 'coarse': (0.3, 10, 8)}


def _inner_points(geo, sx, X, sy, ya, yb, sigma, nlev, p):
    ystar = geo.nearest_param(sx, X, sy, ya, yb)
    u, wu = graded_unit(sigma, nlev, p)
    lenL = (ystar - ya)[:, None]
    lenR = (yb - ystar)[:, None]
    Y = np.concatenate([ystar[:, None] - lenL * u[None, :], ystar[:, None] + lenR * u[None, :]], axis=1)
    WY = np.concatenate([lenL * wu[None, :], lenR * wu[None, :]], axis=1)
    PX = geo.point(sx, X)
    PY = geo.point(sy, Y.ravel()).reshape(2, *Y.shape)
    rho = ((PX[0][:, None] - PY[0])**2 + (PX[1][:, None] - PY[1])**2) / 4.0
    return rho, WY


def bilform(geo, test_t, test_x, trial_t, trial_x, res='fine'):
    """int_test int_trial G(t - s, gamma(x) - gamma(y))"""
    sigma, nlev, p = RES[res]
    a, b = test_t
    c, d = trial_t
    if b <= c:
        return 0.0
    xa, xb = test_x
    ya, yb = trial_x
    sx = geo.side_of(xa, xb)
    sy = geo.side_of(ya, yb)
    crit = [xa, xb]
    for yy in (ya, yb):
        crit.append(float(geo.nearest_param(sy, np.array([yy]), sx, xa, xb)[0]))
    br = graded_panels(xa, xb, crit, sigma, sigma**nlev)
    X, WX = composite_nodes(br, p)
    rho, WY = _inner_points(geo, sx, X, sy, ya, yb, sigma, nlev, p)
    m = (WY > 0) & (rho > 0)
    Kv = np.zeros_like(rho)
    Kv[m] = K_time(a, b, c, d, rho[m])
    return float(np.dot(np.sum(Kv * WY, axis=1), WX))


def evaluate(geo, t, xhat, side_x, trial_t, trial_x, res='eval'):
    """(V 1_trial)(t, gamma(xhat)) with gamma(xhat) taken on piece side_x"""
    sigma, nlev, p = (0.3, 30, 20) if res == 'eval' else (0.2, 24, 16)
    c, d = trial_t
    if t <= c:
        return 0.0
    ya, yb = trial_x
    sy = geo.side_of(ya, yb)
    X = np.array([xhat], dtype=float)
    rho, WY = _inner_points(geo, side_x, X, sy, ya, yb, sigma, nlev, p)
    m = (rho > 0) & (WY > 0)
    val = np.zeros_like(rho)
    val[m] = g_time(t, c, d, rho[m])
    return float(np.sum(val * WY))


def potential(geo, t, pt, trial_t, trial_x, p=20, panels=24):
    """(V 1_trial)(t, x) for a point x off the curve (smooth integrand; composite rule graded towards the foot point)"""
    c, d = trial_t
    if t <= c:
        return 0.0
    ya, yb = trial_x
    sy = geo.side_of(ya, yb)
    Y, WY = composite_nodes(np.linspace(ya, yb, panels + 1), p)
    PY = geo.point(sy, Y)
    rho = ((pt[0] - PY[0])**2 + (pt[1] - PY[1])**2) / 4.0
    return float(np.sum(g_time(t, c, d, rho) * WY))


_DIAG = {}


def diag(geo, t_int, x_int, res='fine'):
    """exact diagonal entry D_e; depends on the element only through (h_t, h_x) and the curvature of its piece"""
    ht = t_int[1] - t_int[0]
    hx = x_int[1] - x_int[0]
    key = (geo.kind(geo.side_of(*x_int)), res, float(ht).hex(), float(hx).hex())
    if key not in _DIAG:
        _DIAG[key] = bilform(geo, t_int, x_int, t_int, x_int, res)
    return _DIAG[key]
