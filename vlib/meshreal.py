"""Adapter between the real `src.mesh.Mesh` and the reference model: build from a JSON case, structural keys,
operation application in lock-step, and the C02 / C10 predicates."""
from fractions import Fraction

import numpy as np

from vlib import repo
from vlib.meshmodel import Model, Box, ONE, S
from vlib.geo import MIXED

MAX_LEVEL = 30     # bisection depth per axis in generated histories (element sizes down to 2^-30 of a root)
CURVES = ['UnitSquare', 'PiSquare', 'LShape', 'Circle', 'UnitInterval']
_curve_cache = {}


class CurveDomainError(ValueError):
    pass


def mixed_curve(P, name):
    """a PiecewiseParametrization of straight pieces (the repository's `line`) and circular arcs"""
    pieces = MIXED[name]
    pw_start = [0.0]
    pw_gamma = []
    for pc in pieces:
        s0 = pw_start[-1]
        if pc['kind'] == 'line':
            fun, _ = P.line(np.array(pc['p0']), np.array(pc['p1']), x_start=s0)
        else:
            def fun(x_hat, pc=pc, s0=s0):
                th = pc['th0'] + pc['sgn'] * (np.asarray(x_hat, dtype=float) - s0) / pc['r']
                return np.vstack([pc['c'][0] + pc['r'] * np.cos(th), pc['c'][1] + pc['r'] * np.sin(th)])
        pw_gamma.append(fun)
        pw_start.append(s0 + pc['len'])
    return P.PiecewiseParametrization(pw_start, pw_gamma, closed=True)


def curve(name):
    """name of a shipped curve, a line/arc curve of geo.MIXED, or {'poly': [[x, y], ...], 'closed': bool} for a rectilinear polygon/polyline"""
    key = name if isinstance(name, str) else repr(name)
    if key not in _curve_cache:
        from src import parametrization as P
        with repo.quiet():
            if isinstance(name, str) and name in MIXED:
                _curve_cache[key] = mixed_curve(P, name)
            elif name == 'Bessel':
                # tangent angle theta(s) = s + a sin 2s, a = 0.45: cos theta = sum_k J_k(a) cos((1 + 2k) s) (Jacobi-Anger),
                # integrated term by term; one piece of length 2 pi, exactly arc-length parametrised, curvature not constant
                from scipy.special import jv
                ks = np.arange(-25, 26)
                co = jv(ks, 0.45) / (1 + 2 * ks)

                def bessel(x_hat):
                    xa = np.atleast_1d(np.asarray(x_hat, dtype=float))
                    ph = np.outer(1 + 2 * ks, xa)
                    return np.vstack([co @ np.sin(ph), -(co @ np.cos(ph))])
                _curve_cache[key] = P.PiecewiseParametrization([0, 2 * np.pi], [bessel])
            elif name == 'Circle2':
                # a circle of radius 2 as one piece of length 4 pi
                _curve_cache[key] = P.PiecewiseParametrization(
                    [0, 4 * np.pi], [lambda x_hat: np.vstack([2 * np.cos(np.asarray(x_hat, dtype=float) / 2),
                                                              2 * np.sin(np.asarray(x_hat, dtype=float) / 2)])])
            elif name == 'CircleGuarded':
                # the unit circle as a one-piece closed curve whose callable is only defined on its parameter interval
                # (like a tabulated arc-length parametrisation): evaluating it elsewhere is an error of the caller
                L = 2 * np.pi

                def guarded(x_hat):
                    xa = np.asarray(x_hat, dtype=float)
                    if xa.size and (xa.min() < -1e-12 or xa.max() > L + 1e-12):
                        raise CurveDomainError('curve evaluated on [%r, %r], outside [0, L]' % (float(xa.min()), float(xa.max())))
                    return np.vstack([np.cos(xa), np.sin(xa)])
                _curve_cache[key] = P.PiecewiseParametrization([0, L], [guarded])
            elif isinstance(name, str):
                _curve_cache[key] = getattr(P, name)()
            else:
                vs = [np.array([float(x), float(y)]) for x, y in name['poly']]
                if name.get('closed'):
                    vs[-1] = vs[0] if name.get('share_first_last') else vs[-1]
                _curve_cache[key] = P.PiecewisePolygon(vs, closed=bool(name['closed']))
                if name.get('scribble'):
                    # the caller reuses its vertex buffers afterwards: the curve must not change with them
                    for v in vs:
                        v *= 2.0
                        v += 7.0
    return _curve_cache[key]


class Live:
    """A real mesh together with its model and the float grids it was built from."""
    def __init__(self, spec, min_hx=None):
        """min_hx: space bisections that would create an element narrower than this are skipped by apply_op (used by
        the checks of the integral operators, whose interval rules assert panel widths > 1e-5 / 1e-7)"""
        from src.mesh import Mesh, MeshParametrized
        self.spec = spec
        self.min_hx = min_hx
        self.ts = [float(t) for t in spec['ts']]
        form = {'list': list, 'tuple': tuple, 'array': lambda v: np.array(v, dtype=float)}[spec.get('grid_form', 'list')]
        with repo.quiet():
            if spec['kind'] == 'abstract':
                self.xs = [float(x) for x in spec['xs']]
                self.glued = bool(spec['glue'])
                self.mesh = Mesh(glue_space=self.glued, initial_space_mesh=form(self.xs),
                                 initial_time_mesh=form(self.ts))
                self.gamma = None
            else:
                g = curve(spec['curve'])
                self.gamma = g
                xs = spec.get('xs')
                self.xs = [float(x) for x in (xs if xs is not None else g.pw_start)]
                self.glued = bool(g.closed)
                if xs is None:
                    self.mesh = MeshParametrized(g, initial_time_mesh=form(self.ts))
                else:
                    self.mesh = MeshParametrized(g, initial_space_mesh=form(self.xs), initial_time_mesh=form(self.ts))
        self.n_t = len(self.ts) - 1
        self.n_x = len(self.xs) - 1
        self.model = Model(self.n_t, self.n_x, self.glued)
        self.root_index = {id(r): k for k, r in enumerate(self.mesh.roots)}
        self.roots_keepalive = list(self.mesh.roots)
        self._skey = {}
        # the >= 3 elements guard of MeshParametrized may already have refined the roots
        if len(self.mesh.leaf_elements) != len(self.mesh.roots):
            self.reseed_model()

    # ------------------------------------------------------------ keys
    def skey(self, elem):
        """Box the parent chain says this element is (root index + which half at every step)."""
        k = id(elem)
        hit = self._skey.get(k)
        if hit is not None and hit[0] is elem:
            return hit[1]
        if elem.parent is None:
            r = self.root_index[id(elem)]
            j, i = divmod(r, self.n_x)
            b = Box(j * ONE, (j + 1) * ONE, i * ONE, (i + 1) * ONE, 0, 0)
        else:
            p = self.skey(elem.parent)
            ch = elem.parent.children
            which = 0 if ch[0] is elem else 1
            assert ch[which] is elem
            dl = (elem.levels[0] - elem.parent.levels[0], elem.levels[1] - elem.parent.levels[1])
            if dl == (1, 0):
                m = (p.t0 + p.t1) >> 1
                b = Box(p.t0, m, p.x0, p.x1, p.lt + 1, p.lx) if which == 0 else Box(m, p.t1, p.x0, p.x1, p.lt + 1, p.lx)
            elif dl == (0, 1):
                m = (p.x0 + p.x1) >> 1
                b = Box(p.t0, p.t1, p.x0, m, p.lt, p.lx + 1) if which == 0 else Box(p.t0, p.t1, m, p.x1, p.lt, p.lx + 1)
            else:
                raise ChainError('levels %s -> %s' % (elem.parent.levels, elem.levels))
        self._skey[k] = (elem, b)
        return b

    def leaves(self):
        return list(self.mesh.leaf_elements)

    def leaf_by_key(self):
        return {self.skey(e).key: e for e in self.mesh.leaf_elements}

    def reseed_model(self):
        self.model = Model(self.n_t, self.n_x, self.glued, leaves=[self.skey(e) for e in self.mesh.leaf_elements])

    # ------------------------------------------------------------ coordinates
    def real_t(self, v):
        j = min(v >> S, self.n_t - 1)
        fr = Fraction(v - j * ONE, ONE)
        return self.ts[j] + (self.ts[j + 1] - self.ts[j]) * float(fr)

    def real_x(self, v):
        i = min(v >> S, self.n_x - 1)
        fr = Fraction(v - i * ONE, ONE)
        return self.xs[i] + (self.xs[i + 1] - self.xs[i]) * float(fr)

    def real_box(self, b):
        return (self.real_t(b.t0), self.real_t(b.t1)), (self.real_x(b.x0), self.real_x(b.x1))


class ChainError(Exception):
    pass


# ------------------------------------------------------------------ selectors and operations
def select(live, sel):
    """Resolve a selector against the live leaf list (every generated history is valid by construction)."""
    kind, i = sel
    leaves = live.leaves()
    if kind in ('last0', 'last1', 'last2', 'last3'):
        # the children created by the most recent bisection are appended to the leaf collection:
        # last0 = second (upper / right) child, last1 = first (lower / left) child; after a combined bisection
        # (four quarters appended) last2 / last3 reach the two quarters of the first time half
        k = int(kind[4])
        return leaves[-1 - k] if len(leaves) > k else leaves[-1]
    if kind != 'any':
        L, T = live.model.L, live.model.T
        def pred(e):
            b = live.skey(e)
            if kind == 'x0':
                return b.x0 == 0
            if kind == 'xL':
                return b.x1 == L
            if kind == 't0':
                return b.t0 == 0
            if kind == 'tT':
                return b.t1 == T
            if kind == 'corner':   # touches an interior root-grid line in space (break points live there)
                return (b.x0 % ONE == 0 and b.x0 != 0) or (b.x1 % ONE == 0 and b.x1 != L)
            if kind == 'fine':
                return b.lt + b.lx >= max(x.levels[0] + x.levels[1] for x in leaves) - 1
            return True
        sub = [e for e in leaves if pred(e)]
        if sub:
            leaves = sub
    return leaves[i % len(leaves)]


def eta_from_recipe(recipe, n, two=False):
    vals = recipe['vals']
    m = 2 * n if two else n
    out = np.array([float(vals[(k * recipe.get('stride', 1) + recipe.get('off', 0)) % len(vals)]) for k in range(m)])
    if two:
        return out.reshape(n, 2)
    return out


def apply_op(live, op, cap=400):
    """Apply one operation to the real mesh and step the model.  Returns a dict describing what happened
    ('skipped' when the size cap would be exceeded; 'mode': 'lockstep' (model was stepped with the same
    request) or 'validity' (model re-seeded from the result after a validity check by the caller))."""
    mesh, model = live.mesh, live.model
    kind = op[0]
    n = len(mesh.leaf_elements)
    info = {'op': op, 'mode': 'lockstep', 'forced': 0}
    with repo.quiet():
        if kind in ('t', 'x'):
            ax = 0 if kind == 't' else 1
            e = select(live, op[1])
            if e.levels[ax] >= MAX_LEVEL:
                return {'op': op, 'mode': 'skipped'}      # beyond this the midpoints are no longer representable
            if ax == 1 and live.min_hx and (e.space_interval[1] - e.space_interval[0]) / 2 < live.min_hx:
                return {'op': op, 'mode': 'skipped'}
            key = live.skey(e).key
            _, forced = model.refine(key, ax)
            info['forced'] = len(forced)
            info['target'] = key
            mesh.refine_axis(e, ax)
        elif kind == 'tx':
            e = select(live, op[1])
            if max(e.levels) >= MAX_LEVEL:
                return {'op': op, 'mode': 'skipped'}
            if live.min_hx and (e.space_interval[1] - e.space_interval[0]) / 2 < live.min_hx:
                return {'op': op, 'mode': 'skipped'}
            key = live.skey(e).key
            ch, f1 = model.refine(key, 0)
            forced = len(f1)
            for c in ch:
                _, f2 = model.refine(c.key, 1)
                forced += len(f2)
            info['forced'] = forced
            info['target'] = key
            mesh.refine(e)
        elif kind == 'unif':
            if 4 * n > cap:
                return {'op': op, 'mode': 'skipped'}
            model.quarter_all()
            mesh.uniform_refine()
        elif kind == 'unifx':
            if 2 * n > cap:
                return {'op': op, 'mode': 'skipped'}
            model.halve_all(1)
            mesh.uniform_refine_space()
        elif kind == 'iso':
            if 6 * n > cap * 2:
                return {'op': op, 'mode': 'skipped'}
            eta = eta_from_recipe(op[2], n)
            info['mode'] = 'validity'
            mesh.dorfler_refine_isotropic(eta, float(op[1]))
        elif kind == 'aniso':
            if 6 * n > cap * 2:
                return {'op': op, 'mode': 'skipped'}
            eta = eta_from_recipe(op[2], n, two=True)
            info['mode'] = 'validity'
            mesh.dorfler_refine_anisotropic(eta, float(op[1]))
        elif kind == 'grade':
            info['mode'] = 'validity'
            mesh.refine_grading(sigma=float(op[1]))
        else:
            raise ValueError(op)
    return info


# ------------------------------------------------------------------ predicates
def walk_tree(live):
    """all elements reachable from the roots through `children`"""
    out = []
    stack = list(live.mesh.roots)
    while stack:
        e = stack.pop()
        out.append(e)
        stack.extend(e.children)
    return out


def check_c02(live, full=True):
    """Returns a list of (clause, detail).  The model must already have been stepped (or re-seeded)."""
    out = []
    mesh, model = live.mesh, live.model
    leaves = list(mesh.leaf_elements)
    # --- parent chains, levels, structural keys
    keys = {}
    for e in leaves:
        try:
            b = live.skey(e)
        except (ChainError, AssertionError, KeyError) as ex:
            out.append(('parent_chain', {'elem': repr(e), 'error': repr(ex)}))
            continue
        if (b.lt, b.lx) != tuple(e.levels):
            out.append(('levels', {'elem': repr(e), 'levels': list(e.levels), 'chain': [b.lt, b.lx]}))
        if b.key in keys:
            out.append(('duplicate_leaf', {'elem': repr(e)}))
        keys[b.key] = e
    # --- leaf set == model leaf set (tiling, minimal closure, 1-irregularity)
    mk = set(model.leaves.keys())
    rk = set(keys.keys())
    if mk != rk:
        missing = [model.leaves[k].pretty() for k in sorted(mk - rk)][:6]
        surplus = [live.skey(keys[k]).pretty() for k in sorted(rk - mk)][:6]
        out.append(('leafset', {'model_only': missing, 'code_only': surplus, 'n_model': len(mk), 'n_code': len(rk)}))
    # --- geometry: real coordinates are those of the dyadic box, shared lines are bitwise shared
    coord_t, coord_x = {}, {}
    for k, e in keys.items():
        b = live.skey(e)
        (et0, et1), (ex0, ex1) = live.real_box(b)
        tol_t = 1e-12 * (live.ts[-1] - live.ts[0]) + 1e-300
        tol_x = 1e-12 * (live.xs[-1] - live.xs[0]) + 1e-300
        rt, rx = e.time_interval, e.space_interval
        if abs(rt[0] - et0) > tol_t or abs(rt[1] - et1) > tol_t or abs(rx[0] - ex0) > tol_x or abs(rx[1] - ex1) > tol_x:
            out.append(('geometry', {'elem': repr(e), 'expected': [[et0, et1], [ex0, ex1]]}))
        vt = (e.vertices[0].t, e.vertices[2].t)
        vx = (e.vertices[0].x, e.vertices[2].x)
        if vt != tuple(rt) or vx != tuple(rx):
            out.append(('geometry', {'elem': repr(e), 'vertices_vs_intervals': [list(vt), list(vx)]}))
        for mv, rv, store in ((b.t0, rt[0], coord_t), (b.t1, rt[1], coord_t), (b.x0, rx[0], coord_x), (b.x1, rx[1], coord_x)):
            if store.setdefault(mv, rv) != rv:
                out.append(('gap_or_overlap', {'elem': repr(e), 'line': mv / ONE, 'values': [store[mv], rv]}))
    if not full:
        return out
    # --- bookkeeping
    tree = walk_tree(live)
    childless = [e for e in tree if not e.children]
    if set(map(id, childless)) != set(map(id, leaves)) or len(childless) != len(leaves):
        out.append(('leaf_collection', {'childless': len(childless), 'leaf_elements': len(leaves)}))
    for e in tree:
        for c in e.children:
            if c.parent is not e:
                out.append(('parent_link', {'elem': repr(c)}))
        if e.children and len(e.children) != 2:
            out.append(('children_count', {'elem': repr(e)}))
    idx = [getattr(e, 'glob_idx', None) for e in tree]
    if None in idx or len(set(idx)) != len(idx):
        out.append(('glob_idx', {'n': len(idx), 'distinct': len(set(idx))}))
    vs = mesh.vertices
    coords = {}
    for v in vs:
        if (v.t, v.x) in coords:
            out.append(('vertex_duplicate', {'tx': [v.t, v.x]}))
            break
        coords[(v.t, v.x)] = v
    # --- gmsh
    try:
        with repo.quiet():
            txt = mesh.gmsh()
        lines = txt.split('\n')
        i0 = lines.index('$Nodes')
        nn = int(lines[i0 + 1])
        nodes = {}
        for ln in lines[i0 + 2:i0 + 2 + nn]:
            p = ln.split()
            nodes[int(p[0])] = (float(p[1]), float(p[2]))
        i1 = lines.index('$Elements')
        ne = int(lines[i1 + 1])
        got = []
        for ln in lines[i1 + 2:i1 + 2 + ne]:
            p = ln.split()
            got.append(tuple(nodes[int(q)] for q in p[-4:]))
        want = [tuple((float(v.t), float(v.x)) for v in e.vertices) for e in leaves]
        if nn != len(vs) or ne != len(leaves) or sorted(got) != sorted(want):
            out.append(('gmsh', {'nodes': nn, 'elements': ne}))
    except Exception as ex:
        out.append(('gmsh', {'error': repr(ex)}))
    return out


def check_c10(live):
    """neighbour sets per edge against the geometric rule; symmetry; boundary flags"""
    out = []
    stats = {'edges': 0, 'coarser': 0, 'two_finer': 0, 'seam': 0}
    mesh, model = live.mesh, live.model
    try:
        by_key = live.leaf_by_key()
    except Exception as ex:
        return [('parent_chain', {'error': repr(ex)})], stats
    leafset = set(map(id, mesh.leaf_elements))
    reported = {}
    for e in mesh.leaf_elements:
        b = live.skey(e)
        if b.key not in model.leaves:
            continue
        for k, edge in enumerate(e.edges):
            stats['edges'] += 1
            try:
                nb = list(edge.neighbour_elements())
            except AssertionError as ex:
                out.append(('assert', {'elem': repr(e), 'edge': k}))
                continue
            except Exception as ex:
                out.append(('exception', {'elem': repr(e), 'edge': k, 'error': repr(ex)}))
                continue
            if any(id(x) not in leafset for x in nb):
                out.append(('stale', {'elem': repr(e), 'edge': k, 'reported': repr(nb)}))
                continue
            got = sorted(live.skey(x).key for x in nb)
            if len(set(got)) != len(got):
                out.append(('duplicate', {'elem': repr(e), 'edge': k, 'reported': repr(nb)}))
            want = sorted(c.key for c in model.neighbours_edge(b, k))
            reported[(b.key, k)] = set(got)
            if got != want:
                out.append(('mismatch', {'elem': repr(e), 'edge': k, 'reported': repr(nb),
                                         'geometric': [model.leaves[w].pretty() for w in want]}))
            if len(got) > 2:
                out.append(('more_than_two', {'elem': repr(e), 'edge': k}))
            bd = model.on_boundary(b, k)
            seam = model.on_seam(b, k)
            if seam:
                stats['seam'] += 1
                if not getattr(edge, 'glued', False):
                    out.append(('flag_glued', {'elem': repr(e), 'edge': k}))
                if not nb:
                    out.append(('seam_without_neighbour', {'elem': repr(e), 'edge': k}))
            else:
                if bool(edge.on_boundary) != bd:
                    out.append(('flag_boundary', {'elem': repr(e), 'edge': k, 'flag': bool(edge.on_boundary), 'geometric': bd}))
                if bd and nb:
                    out.append(('boundary_with_neighbour', {'elem': repr(e), 'edge': k}))
                if not bd and not nb:
                    out.append(('interior_without_neighbour', {'elem': repr(e), 'edge': k}))
            if len(want) == 2:
                stats['two_finer'] += 1
            elif len(want) == 1:
                c = model.leaves[want[0]]
                ax = 0 if k in (1, 3) else 1    # extent of the shared side: time for vertical edges
                if (c.lt if ax == 0 else c.lx) < (b.lt if ax == 0 else b.lx):
                    stats['coarser'] += 1
    # symmetry of the reported relation
    opp = {0: 2, 1: 3, 2: 0, 3: 1}
    for (k1, e1), nbs in reported.items():
        for k2 in nbs:
            back = reported.get((k2, opp[e1]))
            if back is not None and k1 not in back:
                out.append(('asymmetric', {'a': model.leaves[k1].pretty() if k1 in model.leaves else str(k1), 'edge': e1}))
    return out, stats


def validity_after(live, prev_model):
    """After a marking / grading operation: the result must be a 1-irregular tiling that refines the previous
    mesh.  Re-seeds the model from the real leaves and returns the list of defects."""
    out = []
    try:
        live.reseed_model()
    except Exception as ex:
        return [('reseed', {'error': repr(ex)})]
    m = live.model
    td = m.tiling_defects()
    if td:
        out.append(('tiling', {'defects': [str(d)[:200] for d in td[:4]]}))
    ir = m.irregular_pairs()
    if ir:
        out.append(('irregular', {'pairs': [(a.pretty(), c.pretty(), ax) for a, c, ax in ir[:4]]}))
    if not m.refines(prev_model):
        out.append(('not_a_refinement', {}))
    return out
