import sys
from vlib.common import shard_main

if __name__ == '__main__':
    sys.exit(shard_main(sys.argv[1:]))
