"""Access to the code under test: the current working tree of /repo (or $VERIF_REPO).

Nothing is cached between runs: every check process imports the sources afresh.
"""
import contextlib
import io
import os
import sys

REPO = os.environ.get('VERIF_REPO', '/repo')
if REPO not in sys.path:
    sys.path.insert(0, REPO)
# hooks guard (no source hooks exist; the variable is set for completeness)
os.environ.setdefault('RVANVENETIE_STBEM_VERIF', '1')


@contextlib.contextmanager
def quiet():
    """The repo prints progress lines on most calls; keep the shard logs small."""
    old = sys.stdout
    sys.stdout = io.StringIO()
    try:
        yield
    finally:
        sys.stdout = old


class PoolShim:
    """Stands in for the name `mp` inside a repo module: fixed worker count, pools recorded
    so that they can be terminated after the call (the repo never closes them)."""
    def __init__(self, workers):
        import multiprocessing
        self._mp = multiprocessing.get_context('fork')
        self.workers = workers
        self.pools = []

    def cpu_count(self):
        return self.workers

    def Pool(self, n=None, *a, **k):
        p = self._mp.Pool(n if n is not None else self.workers, *a, **k)
        self.pools.append(p)
        return p

    def close(self):
        for p in self.pools:
            try:
                p.terminate()
                p.join()
            except Exception:
                pass
        self.pools = []


@contextlib.contextmanager
def pool_shim(modules, workers):
    shim = PoolShim(workers)
    old = [(m, m.mp) for m in modules]
    for m in modules:
        m.mp = shim
    try:
        yield shim
    finally:
        for m, o in old:
            m.mp = o
        shim.close()
