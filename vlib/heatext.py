"""Closed-form heat extension  u(t, x) = int_Omega G(t, x - y) u0(y) dy  for product data on unions of rectangles
(independent of problems.py): 1-D Gaussian moments over an interval and the complex-erf form for sin/cos."""
import math

import numpy as np
from scipy.special import erf


def f0(x, t, a, b):
    s = 2 * np.sqrt(t)
    return 0.5 * (erf((b - x) / s) - erf((a - x) / s))


def fmono(m, x, t, a, b):
    """int_a^b y^m N(y; x, 2t) dy for m = 0, 1, 2"""
    s = 2 * np.sqrt(t)
    A, B = (a - x) / s, (b - x) / s
    I0 = 0.5 * (erf(B) - erf(A))
    if m == 0:
        return I0
    c = np.sqrt(t / np.pi)
    if m == 1:
        return x * I0 + c * (np.exp(-A * A) - np.exp(-B * B))
    if m == 2:
        return (x * x + 2 * t) * I0 + c * ((a + x) * np.exp(-A * A) - (b + x) * np.exp(-B * B))
    raise ValueError(m)


def fsin(kappa, x, t, a, b):
    """int_a^b sin(kappa y) N(y; x, 2t) dy"""
    s = 2 * np.sqrt(t)
    z = np.exp(1j * kappa * x - kappa * kappa * t) * 0.5 * (erf((b - x - 2j * kappa * t) / s) - erf((a - x - 2j * kappa * t) / s))
    return z.imag


class Product:
    """u0(x, y) = sum_k c_k * fx_k(x) * fy_k(y), each factor ('mono', m) or ('sin', kappa)"""
    def __init__(self, terms):
        self.terms = terms

    @staticmethod
    def _f(spec, v):
        if spec[0] == 'mono':
            return v**spec[1]
        return np.sin(spec[1] * v)

    @staticmethod
    def _F(spec, x, t, a, b):
        if spec[0] == 'mono':
            return fmono(spec[1], x, t, a, b)
        return fsin(spec[1], x, t, a, b)

    def u0(self, xy):
        xy = np.asarray(xy, dtype=float)
        r = 0.0
        for c, fx, fy in self.terms:
            r = r + c * self._f(fx, xy[0]) * self._f(fy, xy[1])
        return r

    def extension(self, rects, t, x, y):
        r = 0.0
        for (a1, b1, a2, b2) in rects:
            for c, fx, fy in self.terms:
                r = r + c * self._F(fx, x, t, a1, b1) * self._F(fy, y, t, a2, b2)
        return r


RECTS = {
    'UnitSquare': [(0.0, 1.0, 0.0, 1.0)],
    'PiSquare': [(0.0, math.pi, 0.0, math.pi)],
    'LShape': [(0.0, 1.0, -1.0, 0.0), (0.0, 1.0, 0.0, 1.0), (-1.0, 0.0, 0.0, 1.0)],
}


def selftest():
    """closed forms against direct numerical quadrature of the Gaussian (harness error if off)"""
    from numpy.polynomial.legendre import leggauss
    xg, wg = leggauss(200)
    for (x, t, a, b) in ((0.3, 0.01, 0.0, 1.0), (1.0, 0.2, 0.0, 1.0), (-0.2, 0.05, -1.0, 0.0), (0.0, 0.003, 0.0, math.pi)):
        # integrate on a window of +-12 standard deviations clipped to [a, b]
        sd = math.sqrt(2 * t)
        lo, hi = max(a, x - 12 * sd), min(b, x + 12 * sd)
        y = 0.5 * (lo + hi) + 0.5 * (hi - lo) * xg
        w = 0.5 * (hi - lo) * wg
        N = np.exp(-(y - x)**2 / (4 * t)) / math.sqrt(4 * math.pi * t)
        for m in (0, 1, 2):
            ref = float(np.sum(w * N * y**m))
            got = float(fmono(m, x, t, a, b))
            if abs(ref - got) > 1e-10 * (1 + abs(ref)):
                raise RuntimeError('heatext self-test (mono %d): %r vs %r' % (m, got, ref))
        for kappa in (1.0, math.pi):
            ref = float(np.sum(w * N * np.sin(kappa * y)))
            got = float(fsin(kappa, x, t, a, b))
            if abs(ref - got) > 1e-10 * (1 + abs(ref)):
                raise RuntimeError('heatext self-test (sin): %r vs %r' % (got, ref))
