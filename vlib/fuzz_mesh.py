"""Coverage-guided byte-level driver (atheris / libFuzzer) for mesh operation histories, supplementary to the BFS and
Hypothesis drivers of C02 / C10.  The oracle sits inside the target: after every operation the real mesh is compared
with the reference model (C02 predicates) and the reported neighbours with the geometric rule (C10 predicates).

usage: python -m vlib.fuzz_mesh <out.json> <libFuzzer args...>      (run by vlib/checks/c02.py in the thorough tier)
A violation is written to <out.json> as a replayable history case and the process exits through an exception, which
libFuzzer reports as a crash; statistics are appended to <out.json>.stats on exit of every 1000th execution."""
import json
import os
import sys

OUT = sys.argv[1]
sys.argv = [sys.argv[0]] + sys.argv[2:]
sys.path.insert(0, os.path.join(os.path.dirname(os.path.dirname(os.path.abspath(__file__))), '.deps'))
import atheris

with atheris.instrument_imports(include=['src.mesh']):
    from vlib import repo
    import src.mesh

from vlib.common import Recorder
from vlib import meshdrive

STATS = {'execs': 0, 'ops': 0, 'violations': 0}
KINDS = ['t', 'x', 'tx', 't', 'x', 'unif', 'unifx']
SELS = ['any', 'any', 'x0', 'xL', 't0', 'tT', 'last0', 'last1']


def decode(data):
    fdp = atheris.FuzzedDataProvider(data)
    n_t = 1 + fdp.ConsumeIntInRange(0, 1)
    n_x = 1 + fdp.ConsumeIntInRange(0, 2)
    glue = fdp.ConsumeBool()
    curve = fdp.ConsumeIntInRange(0, 7)
    if curve < 3:
        spec = {'kind': 'param', 'curve': ['UnitSquare', 'Circle', 'UnitInterval'][curve],
                'ts': [float(i) for i in range(n_t + 1)], 'xs': None}
    else:
        spec = {'kind': 'abstract', 'glue': glue, 'xs': [float(i) for i in range(n_x + 1)], 'ts': [float(i) for i in range(n_t + 1)]}
    ops = []
    while fdp.remaining_bytes() > 1 and len(ops) < 48:
        k = KINDS[fdp.ConsumeIntInRange(0, len(KINDS) - 1)]
        if k in ('unif', 'unifx'):
            ops.append([k])
        else:
            ops.append([k, [SELS[fdp.ConsumeIntInRange(0, len(SELS) - 1)], fdp.ConsumeIntInRange(0, 255)]])
    return {'kind': 'history', 'mesh': spec, 'ops': ops}


class Found(Exception):
    pass


def one_input(data):
    case = decode(data)
    STATS['execs'] += 1
    STATS['ops'] += len(case['ops'])
    for which in os.environ.get('FUZZ_WHICH', 'C02,C10').split(','):
        rec = Recorder()
        meshdrive.run_history(case, rec, which, cap=300)
        if rec.violations:
            STATS['violations'] += 1
            v = rec.violations[0]
            with open(OUT, 'w') as f:
                json.dump({'bucket': v['bucket'], 'detail': v['detail'], 'case': case, 'which': which}, f, default=str)
            with open(OUT + '.stats', 'w') as f:
                json.dump(STATS, f)
            raise Found(v['bucket'])
    if STATS['execs'] % 500 == 0:
        with open(OUT + '.stats', 'w') as f:
            json.dump(STATS, f)


def main():
    atheris.Setup(sys.argv, one_input)
    atheris.Fuzz()


if __name__ == '__main__':
    main()
