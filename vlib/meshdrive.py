"""Drivers shared by C02 / C10 (and used by C06, C19): bounded exhaustive BFS over bisection sequences and
random operation histories, both in lock-step with the reference model."""
import traceback

from hypothesis import strategies as st

from vlib import repo, gens
from vlib.common import khash, explore
from vlib.meshreal import Live, apply_op, check_c02, check_c10, validity_after, walk_tree
from vlib.meshmodel import ONE

BFS_MESHES = [
    {'kind': 'abstract', 'glue': True, 'xs': [0, 1], 'ts': [0, 1]},
    {'kind': 'abstract', 'glue': True, 'xs': [0, 1, 2], 'ts': [0, 1]},
    {'kind': 'abstract', 'glue': True, 'xs': [0, 1, 2, 3], 'ts': [0, 1]},
    {'kind': 'abstract', 'glue': True, 'xs': [0, 1], 'ts': [0, 1, 2]},
    {'kind': 'abstract', 'glue': False, 'xs': [0, 1, 2], 'ts': [0, 1]},
    {'kind': 'abstract', 'glue': False, 'xs': [0, 1, 2], 'ts': [0, 1, 2]},
]


def exc_site(ex):
    tb = traceback.extract_tb(ex.__traceback__)
    for fr in reversed(tb):
        if '/src/' in fr.filename or fr.filename.endswith(('example.py', 'problems.py')):
            return '%s:%s' % (fr.filename.split('/')[-1], fr.name)
    return 'harness'


def fingerprint(live):
    items = []
    for e in walk_tree(live):
        b = live.skey(e)
        fl = []
        for ed in e.edges:
            fl.append((ed.nbr_edge is not None, bool(ed.children), ed.parent is not None, bool(ed.on_boundary),
                       bool(ed.glued), ed.elem is not None))
        items.append((b.key, bool(e.children), tuple(fl)))
    items.sort()
    return khash(repr(items))


def step_checks(live, which, info, prev_model, rec, case, where):
    """run the predicates of property `which` on the current state; returns True if a violation was recorded"""
    bad = False
    if which == 'C02':
        if live.gamma is not None and len(live.mesh.leaf_elements) % 3 == 0:
            # the adaptive driver exports the mesh in physical coordinates in every loop
            try:
                with repo.quiet():
                    live.mesh.gmsh(use_gamma=True)
            except Exception as ex:
                if exc_site(ex) == 'harness':
                    raise
                rec.violation('C02/%s/gmsh_use_gamma_exception' % where, {'error': repr(ex)}, case)
                return True
        if info is not None and info['mode'] == 'validity':
            for clause, detail in validity_after(live, prev_model):
                rec.violation('C02/%s/%s' % (where, clause), detail, case)
                bad = True
        for clause, detail in check_c02(live):
            rec.violation('C02/%s/%s' % (where, clause), detail, case)
            bad = True
    elif which == 'C10':
        try:
            live.reseed_model()       # judge neighbours geometrically against the leaves that exist
        except Exception:
            rec.add('states_not_judged_because_tiling_broken')
            return True
        res, stats = check_c10(live)
        for k, v in stats.items():
            rec.cls('edges_' + k if k != 'edges' else 'edges', v)
        for clause, detail in res:
            rec.violation('C10/%s/%s' % (where, clause), detail, case)
            bad = True
    return bad


def replay_seq(spec, seq):
    """BFS sequences are lists of (leaf index, axis)"""
    live = Live(spec)
    infos = []
    for i, ax in seq:
        infos.append(apply_op(live, ['t' if ax == 0 else 'x', ['any', i]], cap=10**9))
    return live, infos


def bfs(ctx, which, depth, subtrees):
    """subtrees: list of (mesh number, first op (i, ax)) assigned to this shard"""
    rec = ctx.rec
    for mno, first in subtrees:
        spec = BFS_MESHES[mno]
        seen = set()
        frontier = [[first]]
        for d in range(1, depth + 1):
            nxt = []
            for seq in frontier:
                case = {'kind': 'bfs', 'mesh': spec, 'seq': seq}
                try:
                    live, infos = replay_seq(spec, seq)
                except Exception as ex:
                    site = exc_site(ex)
                    if site == 'harness':
                        raise
                    if which == 'C02' or 'neighbour_elements' in site:
                        rec.violation('%s/bfs/exception/%s/%s' % (which, site, type(ex).__name__), {'error': repr(ex)}, case)
                    continue
                fp = fingerprint(live)
                rec.case()
                rec.add('transitions_bfs')
                if fp in seen:
                    continue
                seen.add(fp)
                rec.setadd('states', str(mno) + fp)
                axes = {ax for _, ax in seq}
                if infos[-1]['forced'] > 0 or len(axes) == 2:
                    rec.nontriv(str(mno) + fp)
                if infos[-1]['forced'] > 0:
                    rec.cls('bfs_closure_forced')
                rec.cls('bfs_depth_%d' % d)
                if len(rec.samples) < 3 and infos[-1]['forced'] > 0:
                    rec.sample(case)
                bad = step_checks(live, which, infos[-1], None, rec, case, 'bfs')
                if bad or d == depth:
                    continue
                n = len(live.mesh.leaf_elements)
                for i in range(n):
                    for ax in (0, 1):
                        nxt.append(seq + [[i, ax]])
            frontier = nxt


def bfs_subtrees():
    out = []
    for mno, spec in enumerate(BFS_MESHES):
        n = (len(spec['xs']) - 1) * (len(spec['ts']) - 1)
        for i in range(n):
            for ax in (0, 1):
                out.append((mno, [i, ax]))
    return out


# ------------------------------------------------------------------ random histories
def history_cases(max_ops, allow, **kw):
    return st.builds(lambda spec, ops: {'kind': 'history', 'mesh': spec, 'ops': ops},
                     gens.mesh_specs(**kw), gens.histories(max_ops=max_ops, allow=allow, deep=True))


def deep_family():
    """deterministic deep local refinement: 24 successive bisections of one spot (levels a random history never
    reaches), towards the seam from either side, an interior root line, the initial and the final time"""
    out = []
    specs = [{'kind': 'abstract', 'glue': True, 'xs': [0.0, 0.25, 0.5, 1.0], 'ts': [0.0, 1.0]},
             {'kind': 'abstract', 'glue': True, 'xs': [0.0, 1.0], 'ts': [0.0, 0.4, 0.5, 2.0, 5.0]},
             {'kind': 'abstract', 'glue': False, 'xs': [0.0, 1.0, 2.0], 'ts': [0.0, 1.0, 2.0]},
             {'kind': 'param', 'curve': 'UnitSquare', 'ts': [0.0, 1.0], 'xs': None},
             {'kind': 'param', 'curve': 'Circle', 'ts': [0.0, 1.0], 'xs': None}]
    for spec in specs:
        for sel in ('x0', 'xL', 'tT', 't0', 'corner'):
            for kind in ('t', 'x'):
                for which in (0, 1):
                    ops = [[kind, [sel, 0]]] + [[kind, ['last%d' % which, 0]]] * 24
                    out.append({'kind': 'history', 'mesh': spec, 'ops': ops})
                # alternating axes
                ops = [['t', [sel, 0]]] + [['x' if k % 2 == 0 else 't', ['last%d' % (k % 3 == 0), 0]] for k in range(24)]
                out.append({'kind': 'history', 'mesh': spec, 'ops': ops})
    return out


def large_family():
    """deterministic histories on meshes of about a thousand leaves (sizes that generated histories of some dozen
    operations never reach): uniform refinement, then local bisections of every selector kind, markings with sparse
    and cyclic indicators, a uniform space refinement and the gmsh export"""
    out = []
    specs = [({'kind': 'param', 'curve': 'UnitSquare', 'ts': [0.0, 1.0], 'xs': None}, 4),
             ({'kind': 'param', 'curve': 'Circle', 'ts': [0.0, 0.5, 1.0], 'xs': None}, 4),
             ({'kind': 'abstract', 'glue': False, 'xs': [0.0, 1.0, 2.0], 'ts': [0.0, 1.0, 3.0]}, 4),
             ({'kind': 'abstract', 'glue': True, 'xs': [0.0, 0.25, 1.0], 'ts': [0.0, 1.0]}, 4)]
    local = [['x', ['any', 5]], ['t', ['any', 17]], ['tx', ['corner', 3]], ['x', ['xL', 0]], ['t', ['x0', 1]], ['x', ['last0', 0]],
             ['t', ['last1', 0]], ['tx', ['fine', 2]], ['x', ['tT', 4]], ['t', ['t0', 6]], ['x', ['any', 700]], ['tx', ['any', 333]]]
    for spec, n_unif in specs:
        out.append({'kind': 'history', 'mesh': spec, 'ops': [['unif']] * n_unif + local})
        out.append({'kind': 'history', 'mesh': spec, 'ops': [['unif']] * (n_unif - 1) + local[:6] + [
            ['aniso', 0.5, {'vals': [1.0, 0.2, 0.7]}], ['iso', 0.3, {'vals': [1.0, 0.0, 0.0, 0.0, 0.5]}]] + local[6:]})
        out.append({'kind': 'history', 'mesh': spec, 'ops': [['unif']] * (n_unif - 1) + local[:4] + [['unifx']] + local[4:8]})
    return out


def grade_guard(live, sigma, cap):
    from vlib.meshgrade import predict
    return predict(live, sigma, 4, cap)


def run_history(case, rec, which, cap=400):
    """body for explore(): replay a history on a fresh mesh, checking after every operation"""
    rec.case()
    try:
        live = Live(case['mesh'])
    except AssertionError as ex:
        # constructor preconditions are enforced by the generators; an assertion here is a finding of C18's
        # domain (not of this property) unless it comes from mesh code proper
        rec.exclude('constructor_rejected')
        return
    kinds = set()
    forced_any = False
    bad = step_checks(live, which, None, None, rec, case, 'initial')
    if bad:
        return
    for n_op, op in enumerate(case['ops']):
        prev = None
        if op[0] in ('iso', 'aniso', 'grade'):
            prev = live.model.copy()
        if op[0] == 'grade':
            pred = grade_guard(live, float(op[1]), cap)
            if pred is None:
                rec.exclude('grade_too_large')
                continue
        if which == 'C02' and op[0] in ('iso', 'aniso'):
            # marking-driven bisections: the requested set is the bulk set; outcome == model closure (oracle of C06)
            from vlib.checks import c06
            if 6 * len(live.mesh.leaf_elements) > cap * 2:
                rec.exclude('size_cap')
                continue
            sub_rec = type(rec)()
            recipe = {'r': 'cyc', 'vals': op[2]['vals'], 'off': op[2].get('off', 0)}
            ok = c06.mark_step(live, op[0], float(op[1]), recipe, sub_rec, case, n_op)
            rec.inconclusive += sub_rec.inconclusive
            for v in sub_rec.violations:
                rec.violation(v['bucket'].replace('C06/', 'C02/marking/'), v['detail'], case)
            kinds.add(op[0])
            rec.cls('op_' + op[0])
            rec.add('transitions_random')
            if not ok:
                return
            if step_checks(live, which, {'mode': 'lockstep'}, None, rec, case, op[0]):
                return
            continue
        try:
            info = apply_op(live, op, cap=cap)
        except Exception as ex:
            site = exc_site(ex)
            if site == 'harness':
                raise
            if which == 'C02' or 'neighbour_elements' in site:
                rec.violation('%s/history/exception/%s/%s/%s' % (which, op[0], site, type(ex).__name__),
                              {'error': repr(ex), 'op_index': n_op}, case)
            else:
                rec.add('op_exception_outside_this_property')
            return
        if info['mode'] == 'skipped':
            rec.exclude('size_cap')
            continue
        kinds.add(op[0])
        rec.cls('op_' + op[0])
        rec.add('transitions_random')
        if info.get('forced', 0) > 0:
            forced_any = True
            rec.cls('closure_forced')
        if step_checks(live, which, info, prev, rec, case, op[0]):
            return
    if forced_any or len(kinds) >= 2:
        rec.nontriv(khash(case))
    if live.glued:
        rec.cls('glued_meshes')
    rec.cls('mesh_' + (case['mesh'].get('curve') or 'abstract'))
    if len(rec.samples) < 6 and len(case['ops']) >= 3:
        rec.sample(case)


def replay_case(case, which):
    from vlib.common import Recorder
    rec = Recorder()
    if case.get('kind') == 'bfs':
        try:
            live, infos = replay_seq(case['mesh'], case['seq'])
        except Exception as ex:
            site = exc_site(ex)
            if site == 'harness':
                raise
            return [('%s/bfs/exception/%s/%s' % (which, site, type(ex).__name__), {'error': repr(ex)})]
        step_checks(live, which, infos[-1], None, rec, case, 'bfs')
    else:
        run_history(case, rec, which)
    return [(v['bucket'], v['detail']) for v in rec.violations]


def fuzz(ctx, which, seconds):
    """supplementary coverage-guided campaign (atheris / libFuzzer) on mesh histories; the oracle is inside the target.
    Skipped (and recorded) when atheris is not importable."""
    import json
    import os
    import subprocess
    import sys
    from vlib.common import VERIF
    rec = ctx.rec
    deps = os.path.join(VERIF, '.deps')
    if not os.path.isdir(os.path.join(deps, 'atheris')):
        rec.add('atheris_unavailable')
        return
    work = os.path.join(os.environ.get('VERIF_WORK') or os.path.join(VERIF, '.work', 'fuzz.%d' % os.getpid()), 'fuzz')
    os.makedirs(os.path.join(work, 'corpus'), exist_ok=True)
    out = os.path.join(work, 'out.json')
    env = dict(os.environ, PYTHONPATH=VERIF, FUZZ_WHICH=which)
    cmd = [sys.executable, '-m', 'vlib.fuzz_mesh', out, '-max_total_time=%d' % seconds, '-seed=%d' % (ctx.seed or 1),
           '-max_len=160', '-artifact_prefix=%s/' % work, '-print_final_stats=0', os.path.join(work, 'corpus')]
    p = subprocess.run(cmd, cwd=VERIF, env=env, stdout=subprocess.PIPE, stderr=subprocess.STDOUT, timeout=seconds + 600)
    stats = {}
    if os.path.exists(out + '.stats'):
        stats = json.load(open(out + '.stats'))
    rec.add('fuzz_executions', int(stats.get('execs', 0)))
    rec.add('fuzz_operations', int(stats.get('ops', 0)))
    rec.case(int(stats.get('execs', 0)))
    if os.path.exists(out):
        v = json.load(open(out))
        rec.violation(v['bucket'] + '/found_by_fuzzer', v['detail'], v['case'])
    elif p.returncode != 0:
        tail = p.stdout.decode(errors='replace')[-800:]
        if 'Found' not in tail:
            raise RuntimeError('fuzz driver failed:\n' + tail)
