"""Evaluation points (t, x_hat) relative to a trial leaf, stratified by time and position class (C07, C04, C03)."""
import math

import numpy as np
from hypothesis import strategies as st

from vlib import gens, pairs
from vlib.geo import geo as get_geo
from vlib.meshreal import Live, apply_op

TIME_CLASSES = ['at_start', 'before', 'just_after_start', 'inside', 'at_end', 'shortly_after', 'far_after', 'tail',
                'tau_start', 'tau_end']
POS_CLASSES = ['interior', 'end_a', 'end_b', 'near_out', 'mid_out', 'zero', 'L', 'node_other', 'uniform', 'across_seam',
               'next_side', 'just_inside', 'facing']


POLYGONS = [
    {'poly': [[0, 0], [2, 0], [2, 0.125], [0, 0.125], [0, 0]], 'closed': True},            # thin plate: arc length >> distance
    {'poly': [[1, 1], [3, 1], [3, 2], [1, 2], [1, 1]], 'closed': True},                    # 2 x 1 rectangle off the origin
    {'poly': [[0, 0], [3, 0], [3, 1], [2, 1], [2, 2], [0, 2], [0, 0]], 'closed': True},      # staircase
    {'poly': [[0, 0], [1, 0], [1, 0.5], [2, 0.5]], 'closed': False},                         # open polyline with corners
    # the unit square far from the origin (coordinates 1e4 times the element size)
    {'poly': [[10000, 20000], [10001, 20000], [10001, 20001], [10000, 20001], [10000, 20000]], 'closed': True},
    # a notch in the bottom side: two collinear sides that are not contiguous in the parameter
    {'poly': [[0, 0], [1, 0], [1, 0.25], [2, 0.25], [2, 0], [3, 0], [3, 1], [0, 1], [0, 0]], 'closed': True},
]


def point_cases(max_ops=25, curves=None, time_classes=TIME_CLASSES, pos_classes=POS_CLASSES, polygons=False):
    kw = {} if curves is None else {'curves': curves}
    specs = pairs.pair_specs(**kw)
    if polygons:
        # other polygons the curve class accepts (the evaluation only sees gamma and the parameter intervals)
        poly = st.builds(lambda p, ts: {'kind': 'param', 'curve': p, 'ts': ts, 'xs': None}, st.sampled_from(POLYGONS),
                         st.sampled_from([[0.0, 1.0], [0.0, 0.25], [0.0, 0.01, 0.02]]))
        # and curves mixing straight pieces and arcs
        mixed = st.builds(lambda c, ts: {'kind': 'param', 'curve': c, 'ts': ts, 'xs': None},
                          st.sampled_from(['Stadium', 'Stadium1', 'Dee']), st.sampled_from([[0.0, 1.0], [0.0, 0.25], [0.0, 0.5, 1.0]]))
        specs = st.one_of(specs, specs, specs, poly, mixed)
    return st.fixed_dictionaries({
        'spec': specs, 'ops': gens.histories(max_ops=max_ops, allow=('t', 'x', 'tx')),
        'ei': st.integers(0, 10**6), 'tcl': st.sampled_from(list(time_classes)), 'tpar': st.floats(0.0, 1.0),
        'xcl': st.sampled_from(list(pos_classes)), 'xpar': st.floats(0.0, 1.0), 'xi': st.integers(0, 10**6),
        'side': st.sampled_from([-1, 1]),
    })


def realise(case, hook=None):
    """-> (live, elem, t, x_hat, info) ; info: dict(pos=..., rel_out=..., tau=..., ratio=...)
    hook(live, i) is called before the first and after every operation of the history (operator life cycle)"""
    live = Live(case['spec'], min_hx=case.get('min_hx', 1e-4))
    if hook:
        hook(live, 0)
    for i, op in enumerate(case['ops']):
        apply_op(live, op, cap=200)
        if hook:
            hook(live, i + 1)
    g = get_geo(case['spec']['curve'])
    leaves = live.leaves()
    e = leaves[case['ei'] % len(leaves)]
    if case.get('pick') == 'narrowest':
        e = min(leaves, key=lambda q: (q.space_interval[1] - q.space_interval[0], q.time_interval[0]))
    xa, xb = (float(v) for v in e.space_interval)
    ta, tb = (float(v) for v in e.time_interval)
    h = xb - xa
    ht = tb - ta
    L = g.L
    T = live.ts[-1]
    u = case['tpar']
    tcl = case['tcl']
    if tcl == 'at_start':
        t = ta
    elif tcl == 'before':
        t = ta * u
    elif tcl == 'just_after_start':
        t = float(np.nextafter(ta, 1e9)) if u < 0.3 else ta + ht * 10 ** (-1 - 8 * u)
    elif tcl == 'inside':
        t = ta + ht * (0.02 + 0.96 * u)
    elif tcl == 'at_end':
        t = tb
    elif tcl == 'shortly_after':
        t = tb + ht * 10 ** (-3 + 3 * u)
    elif tcl == 'hair_after_end':
        t = tb * (1 + 1e-9 * (0.15 + 0.8 * u)) if tb > 0 else tb + ht * 1e-9
    elif tcl == 'tau_start':
        t = ta + (h * h / 16) * (1 + 30 * u * u)        # parabolic ratio h^2/tau between 16 and 16/31
    elif tcl == 'tau_end':
        t = tb + (h * h / 16) * (1 + 30 * u * u)
    else:
        t = tb + (T - tb) * u if T > tb else tb + ht * u
    xcl = case['xcl']
    v = case['xpar']
    s = case['side']
    wrap = g.closed

    def place(x):
        if wrap:
            return x % L
        return min(max(x, 0.0), L)

    if xcl == 'interior':
        x = xa + h * (0.001 + 0.998 * v)
    elif xcl == 'just_inside':
        d = min(0.4 * h, 1.05e-5 * 10 ** (2.5 * v))          # 1.05e-5 .. 3e-3 inside an end point (absolute)
        x = xb - d if s > 0 else xa + d
    elif xcl == 'end_a':
        x = xa
    elif xcl == 'end_b':
        x = xb
    elif xcl == 'near_out':
        d = h * 10 ** (-8 + 6 * v)
        x = place(xb + d) if s > 0 else place(xa - d)
    elif xcl == 'mid_out':
        d = h * 10 ** (-2 + 2.5 * v)
        x = place(xb + d) if s > 0 else place(xa - d)
    elif xcl == 'zero':
        x = 0.0
    elif xcl == 'L':
        x = L
    elif xcl == 'node_other':
        o = leaves[case['xi'] % len(leaves)]
        oa, ob = (float(q) for q in o.space_interval)
        nodes = [0.5, 0.0694318442, 0.3300094782, 0.6699905218, 0.9305681558, 0.0130467357, 0.9869532643]
        x = oa + (ob - oa) * nodes[int(v * 6.999)]
    elif xcl == 'across_seam':
        x = place(xb + h * v) if xb == L else (place(xa - h * v) if xa == 0 else v * L)
    elif xcl == 'next_side':
        br = [float(b) for b in g.breaks]
        i = g.side_of(xa, xb)
        j = (i + s) % (len(br) - 1)
        x = br[j] + (br[j + 1] - br[j]) * v
    elif xcl == 'facing':
        # the point of the curve nearest in the plane to the element's mid-point among those at least one element
        # width away along the curve and three times as far along the curve as in the plane (thin plates, the two sides of a stadium, the legs of the L): close, yet far
        mid = 0.5 * (xa + xb)
        Pm = g.point(g.side_of(xa, xb), mid).ravel()
        best = None
        for i in range(g.n_sides):
            ss = np.linspace(float(g.breaks[i]), float(g.breaks[i + 1]), 257)
            arc = np.abs(ss - mid)
            if wrap:
                arc = np.minimum(arc, L - arc)
            PP = g.point(i, ss)
            d2 = (PP[0] - Pm[0])**2 + (PP[1] - Pm[1])**2
            d2 = np.where((arc >= h) & (arc * arc >= 9 * d2), d2, np.inf)
            k = int(np.argmin(d2))
            if np.isfinite(d2[k]) and (best is None or d2[k] < best[0]):
                best = (float(d2[k]), float(ss[k]))
        x = place(best[1] + (v - 0.5) * h) if best is not None else v * L
    else:
        x = v * L
    x = float(min(max(x, 0.0), L))
    if tcl == 'tail':
        # time such that the largest kernel argument rho / (t - t_a) is 75..540: value between 1e-250 and 1e-30
        P = g.point(g.sides_at(x)[0], x).ravel()
        PY = g.point(g.side_of(xa, xb), np.linspace(xa, xb, 9))
        d2 = float(np.min((P[0] - PY[0])**2 + (P[1] - PY[1])**2))
        t = ta + d2 / (4 * (75 + 465 * u)) if d2 > 0 else ta + ht * 0.5
    # position relative to the element (parameter distance, through the seam where shorter)
    if xa <= x <= xb:
        rel_out = 0.0
        inside = True
    else:
        d = min(abs(x - xa), abs(x - xb))
        if wrap:
            d = min(d, abs(L - x + xa), abs(L - xb + x))
        rel_out = d / h
        inside = False
    taus = [z for z in (t - ta, t - tb) if z > 0]
    tau = min(taus) if taus else None
    info = {'inside': inside, 'rel_out': rel_out, 'tau': tau, 'ratio': (h * h / tau) if tau else None,
            'end_dist': min(abs(x - xa), abs(x - xb)), 'h': h, 'ht': ht}
    return live, e, float(t), x, info
