"""Reference model of the space-time mesh, written from the property text, importing nothing from /repo.

A leaf is an exact dyadic box in *root-grid units*: the root (j, i) of a tensor initial mesh occupies
[j, j+1] x [i, i+1]; coordinates are integers in units of 2**-S (S = 60), so all arithmetic is exact.

  * geometric neighbour rule: B is a neighbour of A across A's right edge iff A.x1 == B.x0 (or, glued,
    A.x1 == L and B.x0 == 0) and the time intervals overlap in positive length; same for the other edges.
  * refinement = bisect the target, then forced repair: while some edge-neighbour pair has
    lvl_ax(A) - lvl_ax(B) >= 2, bisect B in ax.  Levels only grow, so such a pair can only be repaired by
    bisecting B: every repair step is contained in every 1-irregular refinement containing the request, hence
    the fixpoint is the smallest one and does not depend on the order of repairs.
"""
S = 60
ONE = 1 << S


class Box:
    __slots__ = ('t0', 't1', 'x0', 'x1', 'lt', 'lx')

    def __init__(self, t0, t1, x0, x1, lt, lx):
        self.t0, self.t1, self.x0, self.x1, self.lt, self.lx = t0, t1, x0, x1, lt, lx

    @property
    def key(self):
        return (self.t0, self.t1, self.x0, self.x1)

    def lvl(self, ax):
        return self.lt if ax == 0 else self.lx

    def root(self):
        return (self.t0 >> S, self.x0 >> S)

    def pretty(self):
        def fr(v):
            r = v >> S
            f = v & (ONE - 1)
            if f == 0:
                return str(r)
            k = S
            while f % 2 == 0:
                f >>= 1
                k -= 1
            return '%d+%d/2^%d' % (r, f, k)
        return 't[%s,%s] x[%s,%s] l(%d,%d)' % (fr(self.t0), fr(self.t1), fr(self.x0), fr(self.x1), self.lt, self.lx)

    def __repr__(self):
        return 'Box(' + self.pretty() + ')'


def _guillotine(t0, t1, x0, x1, boxes):
    """True iff `boxes` tile the dyadic region exactly as the leaves of some bisection tree of it"""
    stack = [(t0, t1, x0, x1, boxes)]
    while stack:
        t0, t1, x0, x1, bs = stack.pop()
        if len(bs) == 1:
            b = bs[0]
            if (b.t0, b.t1, b.x0, b.x1) != (t0, t1, x0, x1):
                return False
            continue
        if not bs:
            return False
        tm, xm = (t0 + t1) >> 1, (x0 + x1) >> 1
        lo = [b for b in bs if b.t1 <= tm]
        hi = [b for b in bs if b.t0 >= tm]
        if len(lo) + len(hi) == len(bs) and lo and hi:
            stack.append((t0, tm, x0, x1, lo))
            stack.append((tm, t1, x0, x1, hi))
            continue
        lo = [b for b in bs if b.x1 <= xm]
        hi = [b for b in bs if b.x0 >= xm]
        if len(lo) + len(hi) == len(bs) and lo and hi:
            stack.append((t0, t1, x0, xm, lo))
            stack.append((t0, t1, xm, x1, hi))
            continue
        return False
    return True


class Model:
    def __init__(self, n_t, n_x, glued, leaves=None):
        self.n_t, self.n_x, self.glued = n_t, n_x, glued
        self.L = n_x * ONE
        self.T = n_t * ONE
        self.leaves = {}
        # index: boxes by the coordinate of each of their four sides
        self.by_x0, self.by_x1, self.by_t0, self.by_t1 = {}, {}, {}, {}
        if leaves is None:
            for j in range(n_t):
                for i in range(n_x):
                    self._add(Box(j * ONE, (j + 1) * ONE, i * ONE, (i + 1) * ONE, 0, 0))
        else:
            for b in leaves:
                self._add(Box(b.t0, b.t1, b.x0, b.x1, b.lt, b.lx))

    def copy(self):
        return Model(self.n_t, self.n_x, self.glued, leaves=self.leaves.values())

    # ------------------------------------------------------------ index
    def _add(self, b):
        assert b.key not in self.leaves
        self.leaves[b.key] = b
        self.by_x0.setdefault(b.x0, {})[b.key] = b
        self.by_x1.setdefault(b.x1, {})[b.key] = b
        self.by_t0.setdefault(b.t0, {})[b.key] = b
        self.by_t1.setdefault(b.t1, {})[b.key] = b

    def _del(self, b):
        del self.leaves[b.key]
        del self.by_x0[b.x0][b.key]
        del self.by_x1[b.x1][b.key]
        del self.by_t0[b.t0][b.key]
        del self.by_t1[b.t1][b.key]

    # ------------------------------------------------------------ neighbours
    def neighbours_edge(self, b, edge):
        """edge ids follow the picture, not the code: 0 = bottom (t = t0), 1 = right (x = x1), 2 = top, 3 = left."""
        out = []
        if edge == 1:
            xs = [b.x1]
            if self.glued and b.x1 == self.L:
                xs = [0]
            for x in xs:
                for c in self.by_x0.get(x, {}).values():
                    if min(b.t1, c.t1) > max(b.t0, c.t0):
                        out.append(c)
        elif edge == 3:
            xs = [b.x0]
            if self.glued and b.x0 == 0:
                xs = [self.L]
            for x in xs:
                for c in self.by_x1.get(x, {}).values():
                    if min(b.t1, c.t1) > max(b.t0, c.t0):
                        out.append(c)
        elif edge == 2:
            for c in self.by_t0.get(b.t1, {}).values():
                if min(b.x1, c.x1) > max(b.x0, c.x0):
                    out.append(c)
        else:
            for c in self.by_t1.get(b.t0, {}).values():
                if min(b.x1, c.x1) > max(b.x0, c.x0):
                    out.append(c)
        return out

    def neighbours(self, b):
        out = []
        for e in range(4):
            out.extend(self.neighbours_edge(b, e))
        return out

    def on_boundary(self, b, edge):
        """geometric boundary of the cylinder (t = 0, t = T, and x = 0, x = L when open)"""
        if edge == 0:
            return b.t0 == 0
        if edge == 2:
            return b.t1 == self.T
        if self.glued:
            return False
        return b.x1 == self.L if edge == 1 else b.x0 == 0

    def on_seam(self, b, edge):
        return self.glued and ((edge == 1 and b.x1 == self.L) or (edge == 3 and b.x0 == 0))

    # ------------------------------------------------------------ refinement
    def _bisect(self, b, ax):
        self._del(b)
        if ax == 0:
            m = (b.t0 + b.t1) >> 1
            c1 = Box(b.t0, m, b.x0, b.x1, b.lt + 1, b.lx)
            c2 = Box(m, b.t1, b.x0, b.x1, b.lt + 1, b.lx)
        else:
            m = (b.x0 + b.x1) >> 1
            c1 = Box(b.t0, b.t1, b.x0, m, b.lt, b.lx + 1)
            c2 = Box(b.t0, b.t1, m, b.x1, b.lt, b.lx + 1)
        self._add(c1)
        self._add(c2)
        return c1, c2

    def refine(self, key, ax, order=0):
        """bisect leaf `key` in axis ax and repair.  Returns (children, list of forced boxes)."""
        b = self.leaves[key]
        ch = self._bisect(b, ax)
        forced = self.repair(list(ch), ax, order)
        return ch, forced

    def repair(self, work, ax, order=0):
        forced = []
        work = list(work)
        while work:
            b = work.pop() if order == 0 else work.pop(0)
            if b.key not in self.leaves:
                continue
            viol = [c for c in self.neighbours(b) if b.lvl(ax) - c.lvl(ax) >= 2]
            if not viol:
                continue
            c = viol[0] if order == 0 else viol[-1]
            forced.append(c)
            ch = self._bisect(c, ax)
            work.append(b)
            work.extend(ch)
        return forced

    def quarter_all(self):
        for b in list(self.leaves.values()):
            c1, c2 = self._bisect(b, 0)
            self._bisect(c1, 1)
            self._bisect(c2, 1)

    def halve_all(self, ax):
        for b in list(self.leaves.values()):
            self._bisect(b, ax)

    # ------------------------------------------------------------ predicates
    def irregular_pairs(self):
        out = []
        for b in self.leaves.values():
            for c in self.neighbours(b):
                for ax in (0, 1):
                    if b.lvl(ax) - c.lvl(ax) >= 2:
                        out.append((b, c, ax))
        return out

    def tiling_defects(self):
        """leaves must be dyadic boxes of their levels inside one root, pairwise disjoint, covering every root"""
        out = []
        per_root = {}
        for b in self.leaves.values():
            ht, hx = b.t1 - b.t0, b.x1 - b.x0
            if ht != ONE >> b.lt or hx != ONE >> b.lx or b.t0 % ht or b.x0 % hx:
                out.append(('not_dyadic', b))
                continue
            r = b.root()
            if not (0 <= r[0] < self.n_t and 0 <= r[1] < self.n_x) or ((b.t1 - 1) >> S, (b.x1 - 1) >> S) != r:
                out.append(('outside_root', b))
                continue
            per_root.setdefault(r, []).append(b)
        for j in range(self.n_t):
            for i in range(self.n_x):
                bs = per_root.get((j, i), [])
                area = sum((b.t1 - b.t0) * (b.x1 - b.x0) for b in bs)
                if area != ONE * ONE:
                    out.append(('area', (j, i), area / (ONE * ONE)))
                if not _guillotine(j * ONE, (j + 1) * ONE, i * ONE, (i + 1) * ONE, bs):
                    out.append(('not_a_bisection_tiling', (j, i)))
                    if len(bs) <= 800:
                        for p in range(len(bs)):
                            a = bs[p]
                            for q in range(p + 1, len(bs)):
                                c = bs[q]
                                if min(a.t1, c.t1) > max(a.t0, c.t0) and min(a.x1, c.x1) > max(a.x0, c.x0):
                                    out.append(('overlap', a, c))
        return out

    def refines(self, other):
        """every leaf of self lies inside a leaf of other"""
        for b in self.leaves.values():
            ok = False
            # ancestors of b: walk up by all (lt', lx') <= (lt, lx)
            for lt in range(b.lt, -1, -1):
                ht = ONE >> lt
                t0 = b.t0 - b.t0 % ht
                for lx in range(b.lx, -1, -1):
                    hx = ONE >> lx
                    x0 = b.x0 - b.x0 % hx
                    if (t0, t0 + ht, x0, x0 + hx) in other.leaves:
                        ok = True
                        break
                if ok:
                    break
            if not ok:
                return False
        return True

    def state(self):
        return frozenset((k, b.lt, b.lx) for k, b in self.leaves.items())

    def min_closure_of(self, requests):
        """Apply a list of (key, ax) bisection requests in order, each with forced repair."""
        for key, ax in requests:
            if key in self.leaves:
                self.refine(key, ax)
