"""Element pairs for the single-layer checks (C01, C04, C11, C12, C13): class-stratified generation.

A pair is always realised as two coexisting leaves of one real mesh reached by bisection (target-driven
`mesh_with`, or a generated history), or as (leaf, piece of a leaf) the way the estimators build them.
Classes follow the branch signature of the panel splitting; they are computed from the geometry only.
"""
import math

import numpy as np
from hypothesis import strategies as st

from vlib import repo, gens
from vlib.geo import geo as get_geo
from vlib.meshreal import Live, apply_op, select
from vlib.meshmodel import ONE, S, Box

U = 12                      # sub-root resolution of the target generator: positions in units of 2**-U per root
UU = 1 << U

SPACE_CLASSES = ['identical', 'touch', 'touch_seam', 'touch_corner', 'nested_left', 'nested_right', 'nested_interior',
                 'disjoint_near', 'disjoint_any', 'disjoint_seam_near']
TIME_CLASSES = ['equal', 'touch_after', 'separated', 'overlap', 'acausal', 'acausal_touch']
SHIPPED = ('UnitSquare', 'PiSquare', 'LShape', 'Circle', 'UnitInterval')
# plus the line/arc curves of vlib/geo.py (custom PiecewiseParametrization objects)
WITH_MIXED = SHIPPED + ('Stadium', 'Stadium1', 'Dee')


# ------------------------------------------------------------------ classification (geometry only)
def classify(g, test_t, test_x, trial_t, trial_x):
    xa, xb = test_x
    ya, yb = trial_x
    hx, hy = xb - xa, yb - ya
    L = g.L
    sx, sy = g.side_of(xa, xb), g.side_of(ya, yb)
    info = {'ratio': max(hx, hy) / min(hx, hy), 'swap': (xa, xb) > (ya, yb), 'sides': 'same' if sx == sy else 'diff'}
    direct_gap = max(ya - xb, xa - yb)
    seam_gap = None
    if g.closed:
        seam_gap = min(xa + (L - yb), ya + (L - xb))
    if (xa, xb) == (ya, yb):
        sc = 'identical'
        gap = 0.0
    elif xb == ya or yb == xa:
        sc = 'touch' if sx == sy else 'touch_corner'
        gap = 0.0
    elif g.closed and ((xa == 0 and yb == L) or (ya == 0 and xb == L)):
        sc = 'touch_seam'
        gap = 0.0
    elif direct_gap < 0:
        big, small = ((xa, xb), (ya, yb)) if hx > hy else ((ya, yb), (xa, xb))
        if small[0] == big[0]:
            sc = 'nested_left'
        elif small[1] == big[1]:
            sc = 'nested_right'
        else:
            sc = 'nested_interior'
        gap = 0.0
        info['test_is_larger'] = hx > hy
    else:
        gap = direct_gap
        sc = 'disjoint_' + info['sides']
        if seam_gap is not None and seam_gap < direct_gap:
            gap = seam_gap
            sc = 'disjoint_seam_nearer'
    if sc in ('touch', 'touch_seam', 'touch_corner'):
        sc += '_eq' if abs(hx - hy) < 1e-10 else ('_first_longer' if ((hx > hy) != info['swap']) else '_second_longer')
    near = gap <= min(hx, hy)
    info['gap_in_short_widths'] = gap / min(hx, hy)
    info['gap_over_long'] = gap / max(hx, hy)
    a, b = test_t
    c, d = trial_t
    if b <= c:
        tc = 'acausal_touch' if b == c else 'acausal'
    elif (a, b) == (c, d):
        tc = 'equal'
    elif a == d:
        tc = 'touch_after'
    elif a > d:
        tc = 'separated'
    else:
        tc = 'overlap'
    return sc, tc, near, info


def close_disjoint_excluded(info, sc):
    """the measured domain bound of DESIGN.md 2.1 / 7.7: the product rule of the disjoint branch (and the remainder
    panels of the unequal touching branches) loses accuracy when a short panel sits close to a much longer one:
      disjoint, size ratio > 8, and gap <= 4 short widths or gap < 1/8 of the long panel;
      touching (same piece, corner, seam) with size ratio > 64."""
    if sc.startswith('disjoint'):
        return info['ratio'] > 8.0 and (info['gap_in_short_widths'] <= 4.0 or info['gap_over_long'] < 0.125)
    if sc.startswith('touch'):
        return info['ratio'] > 64.0 * (1 + 1e-9)
    return False


# ------------------------------------------------------------------ target-driven meshes
def box_from(n_t, n_x, tq, tl, xp, xl, closed):
    """dyadic box from positions in units of 2**-U per root; None when out of range"""
    tlen, xlen = UU >> tl, UU >> xl
    if tq % tlen or xp % xlen:
        return None
    if closed:
        xp %= n_x * UU
    if not (0 <= xp and xp + xlen <= n_x * UU and 0 <= tq and tq + tlen <= n_t * UU):
        return None
    sh = S - U
    return Box(tq << sh, (tq + tlen) << sh, xp << sh, (xp + xlen) << sh, tl, xl)


def leaf_containing(model, t, x):
    for b in model.leaves.values():
        if b.t0 <= t < b.t1 and b.x0 <= x < b.x1:
            return b
    return None


def mesh_with(spec, targets, max_leaves=1500):
    """Bisect a fresh mesh towards every target box (always the leaf containing the target's centre, in an axis whose
    level is still too low).  Returns (live, ok) -- ok False when a target could not coexist with the others."""
    live = Live(spec)
    for tg in targets:
        ct, cx = (tg.t0 + tg.t1) >> 1, (tg.x0 + tg.x1) >> 1
        for _ in range(200):
            b = leaf_containing(live.model, ct, cx)
            if b is None:
                return live, False
            if b.key == tg.key:
                break
            if b.lt > tg.lt or b.lx > tg.lx:
                return live, False          # already split beyond the target by the closure
            # bisect in the axis with the larger deficit (ties: time first)
            ax = 0 if (tg.lt - b.lt) >= (tg.lx - b.lx) and tg.lt > b.lt else 1
            if ax == 1 and not tg.lx > b.lx:
                ax = 0
            e = live.leaf_by_key()[b.key]
            with repo.quiet():
                live.mesh.refine_axis(e, ax)
            live.model.refine(b.key, ax)
            if len(live.model.leaves) > max_leaves:
                return live, False
    ok = all(tg.key in live.model.leaves for tg in targets)
    return live, ok


# ------------------------------------------------------------------ strategies
def graded_space_grid(name, towards, ratio_steps):
    """initial space grid containing the break points, graded towards one break point with neighbouring-root
    ratios <= 4: extra points at distance side * r_k from the break point, r_k a decreasing sequence"""
    br = gens.curve_breaks(name)
    pts = set(br)
    n = len(br) - 1
    i = towards % n
    a, b = br[i], br[i + 1]
    d = b - a
    # the piece on the other side of the break point a (through the seam on closed curves) is graded symmetrically
    j = (i - 1) % n if (i > 0 or name != 'UnitInterval') else None
    frac = 1.0
    for r in ratio_steps:
        frac /= r
        if frac < 1.0 / 64:
            break
        pts.add(a + d * frac)
        if j is not None:
            a2, b2 = br[j], br[j + 1]
            pts.add(b2 - min(d, b2 - a2) * frac)
    return sorted(pts)


def pair_specs(curves=('UnitSquare', 'PiSquare', 'LShape', 'Circle', 'UnitInterval')):
    plain = st.builds(lambda c, ts: {'kind': 'param', 'curve': c, 'ts': ts, 'xs': None}, st.sampled_from(list(curves)),
                      st.sampled_from([[0.0, 1.0], [0.0, 0.5, 1.0], [0.0, 1.0, 2.0], [0.0, 0.1, 0.2, 0.3], [0.0, 0.25]]))
    enr = st.lists(st.tuples(st.integers(0, 5), st.sampled_from([3, 4, 6, 8, 9, 2])), min_size=1, max_size=3)
    k12 = st.builds(lambda c, ts, en: {'kind': 'param', 'curve': c, 'ts': ts, 'xs': gens.space_grid_for(c, en)},
                    st.sampled_from(list(curves)), st.sampled_from([[0.0, 1.0], [0.0, 0.5], [0.0, 0.1, 0.2]]), enr)
    graded = st.builds(lambda c, ts, tw, rs: {'kind': 'param', 'curve': c, 'ts': ts, 'xs': graded_space_grid(c, tw, rs)},
                       st.sampled_from(list(curves)), st.sampled_from([[0.0, 0.25], [0.0, 0.125, 0.25], [0.0, 1.0]]),
                       st.integers(0, 5), st.lists(st.sampled_from([2.0, 3.0, 4.0, 2.5]), min_size=1, max_size=4))
    return st.one_of(plain, plain, k12, graded)


def target_cases(space_classes=SPACE_CLASSES, time_classes=TIME_CLASSES, curves=None):
    kw = {} if curves is None else {'curves': curves}

    def for_spec(spec):
        c = spec['curve']
        scs = [x for x in space_classes
               if not (x == 'touch_corner' and c in ('Circle', 'UnitInterval'))
               and not (x in ('touch_seam', 'disjoint_seam_near') and c == 'UnitInterval')]
        return st.fixed_dictionaries({
            'fam': st.just('target'), 'spec': st.just(spec),
            'sc': st.sampled_from(scs), 'tc': st.sampled_from(list(time_classes)),
            'l1': st.integers(0, 5), 'dl': st.integers(-3, 3), 'pos': st.integers(0, 10**6), 'pos2': st.integers(0, 10**6),
            'g': st.integers(1, 3), 'lw': st.integers(0, 2), 'swap': st.booleans(),
            'm1': st.integers(0, 7), 'dm': st.integers(-2, 3), 'tpos': st.integers(0, 10**6), 'tpos2': st.integers(0, 10**6),
            'tgap': st.integers(1, 6),
        })
    return pair_specs(**kw).flatmap(for_spec)


def history_cases(max_ops=30, curves=None):
    kw = {} if curves is None else {'curves': curves}
    return st.fixed_dictionaries({
        'fam': st.just('history'), 'spec': pair_specs(**kw),
        'ops': gens.histories(max_ops=max_ops, allow=('t', 'x', 'tx')),
        'sc': st.sampled_from(['identical', 'touch', 'touch_seam', 'touch_corner', 'nested', 'disjoint', 'any']),
        'tc': st.sampled_from(TIME_CLASSES + ['any']),
        'i': st.integers(0, 10**6), 'j': st.integers(0, 10**6),
    })


def piece_cases(max_ops=20, curves=None):
    kw = {} if curves is None else {'curves': curves}
    return st.fixed_dictionaries({
        'fam': st.just('piece'), 'spec': pair_specs(**kw),
        'ops': gens.histories(max_ops=max_ops, allow=('t', 'x', 'tx')),
        'i': st.integers(0, 10**6), 'j': st.integers(0, 10**6),
        'piece': st.sampled_from(['t0', 't1', 'x0', 'x1', 'q0', 'q1', 'q2', 'q3']),
        'other': st.sampled_from(['same', 'same', 'nbr', 'any']),
        'leaf_is_test': st.booleans(), 'real_children': st.booleans(),
    })


# ------------------------------------------------------------------ realisation
def aspect_ok(e, limit=32.0):
    """aspect bound of the properties; elements narrower than 1e-5 are outside the operators' own input validation
    (the interval rules assert panel widths > 1e-5 / 1e-7)"""
    hx = e.space_interval[1] - e.space_interval[0]
    ht = e.time_interval[1] - e.time_interval[0]
    return hx > 4e-5 and hx * hx / ht <= limit * (1 + 1e-12)


def _targets(case, n_t, n_x, closed, breaks_at_roots, need_level=None):
    """two boxes (test, trial) of the requested class in root units, or None.
    need_level(p, l) -> largest time level at which a box with that space interval still has aspect <= 32.
    Positions are chosen among all candidates for which the class is constructible inside the cylinder."""
    sc, tc = case['sc'], case['tc']
    if sc.startswith('nested') and tc in ('equal', 'overlap'):
        tc = 'separated'         # nested space intervals coexist as leaves only at different times
    if sc == 'nested_interior' and tc == 'touch_after':
        tc = 'separated'         # two space levels apart: not adjacent in time in a 1-irregular mesh
    if sc == 'identical' and tc == 'overlap':
        tc = 'touch_after'       # same space interval: time intervals of leaves are equal or disjoint
    tot = n_x * UU
    l1 = case['l1']
    if need_level is not None:
        # smallest space level at which the widest root still admits aspect <= 32 at time level 0
        while l1 < 7 and min(need_level(i * UU, l1) for i in range(n_x)) < 0:
            l1 += 1
    len1 = UU >> l1

    def space_pair(p1):
        l2 = max(0, min(7, l1 + case['dl']))
        len2 = UU >> l2
        if sc == 'identical':
            return p1, l1
        if sc in ('touch', 'touch_corner', 'touch_seam'):
            p2 = p1 + len1
            if sc == 'touch_seam' and p2 != tot:
                return None
            if sc == 'touch_corner' and (p2 % UU or (p2 // UU) not in breaks_at_roots):
                return None
            if sc == 'touch' and (p2 >= tot or (p2 % UU == 0 and (p2 // UU) in breaks_at_roots)):
                return None
            while p2 % len2:
                l2 += 1
                len2 = UU >> l2
            return (p2, l2) if l2 <= 8 else None
        if sc.startswith('nested'):
            d = max(1, abs(case['dl']))
            if sc == 'nested_interior':
                d = max(2, d)
            l2 = l1 + d
            if l2 > 8:
                return None
            len2 = UU >> l2
            n_sub = 1 << d
            j = 0 if sc == 'nested_left' else (n_sub - 1 if sc == 'nested_right' else 1 + case['pos2'] % (n_sub - 2))
            return p1 + j * len2, l2
        if sc in ('disjoint_near', 'disjoint_seam_near'):
            l2 = max(l2, l1)
            lw = max(l1, l2 - case['lw'])
            len2 = UU >> l2
            p2 = p1 + len1 + case['g'] * (UU >> lw)
            if sc == 'disjoint_seam_near' and not (p1 + len1 <= tot < p2 + len2 or p1 + len1 <= tot <= p2):
                return None
            if sc == 'disjoint_near' and p2 + len2 > tot:
                return None
            return p2, l2
        p2 = (case['pos2'] % (tot // len2)) * len2
        if p2 == p1 or (p2 < p1 + len1 and p1 < p2 + len2):
            return None
        return p2, l2

    if sc in ('touch_seam', 'disjoint_seam_near') and not closed:
        return None
    cands = []
    for k in range(tot // len1):
        r = space_pair(k * len1)
        if r is not None:
            p2, l2 = r
            if closed or p2 + (UU >> l2) <= tot:
                cands.append((k * len1, p2, l2))
    if not cands:
        return None
    p1, p2, l2 = cands[case['pos'] % len(cands)]
    # ---- time
    m1 = case['m1']
    m2 = max(0, min(8, m1 + case['dm']))
    if need_level is not None:
        cap1, cap2 = need_level(p1, l1), need_level(p2, l2)
        if case['swap']:
            cap1, cap2 = cap2, cap1
        if cap1 < 0 or cap2 < 0:
            return None
        m1, m2 = min(m1, cap1), min(m2, cap2)
    ttot = n_t * UU
    if tc == 'equal':
        m1 = m2 = min(m1, m2)
    if tc == 'overlap' and m1 == m2:
        if m1 > 0:
            m2 = m1 - 1          # trial longer in time (coarser), test inside it
        else:
            return None
    tl1, tl2 = UU >> m1, UU >> m2

    def time_pair(q2):
        """position of the test interval for a trial interval starting at q2"""
        if tc == 'equal':
            return q2
        if tc == 'touch_after':
            q1 = q2 + tl2
        elif tc == 'separated':
            q1 = q2 + tl2 + (case['tgap'] + (2 if sc == 'nested_interior' else 0)) * max(tl1, tl2)
        elif tc == 'overlap':
            if m1 > m2:
                q1 = q2 + (case['tpos2'] % (tl2 // tl1)) * tl1
            else:
                q1 = q2 - q2 % tl1
        elif tc == 'acausal_touch':
            q1 = q2 - tl1
        else:
            q1 = q2 - tl1 - case['tgap'] * max(tl1, tl2)
        if q1 % tl1 or q1 < 0 or q1 + tl1 > ttot:
            return None
        return q1

    tc_c = []
    for k in range(ttot // tl2):
        q1 = time_pair(k * tl2)
        if q1 is not None:
            tc_c.append((q1, k * tl2))
    if not tc_c:
        return None
    q1, q2 = tc_c[case['tpos'] % len(tc_c)]
    A = box_from(n_t, n_x, q1, m1, p1, l1, closed)        # test
    B = box_from(n_t, n_x, q2, m2, p2, l2, closed)        # trial
    if A is None or B is None:
        return None
    if case['swap']:
        # exchange the space intervals (keeps the time relation): covers both parameter orders
        A2 = Box(A.t0, A.t1, B.x0, B.x1, A.lt, B.lx)
        B2 = Box(B.t0, B.t1, A.x0, A.x1, B.lt, A.lx)
        A, B = A2, B2
    return A, B


def targets_for(case, max_aspect=32.0):
    """-> (probe Live, test box, trial box, reason)"""
    spec = case['spec']
    probe = Live(spec)
    g = get_geo(spec['curve'])
    br = set(float(x) for x in g.breaks)
    roots_at_breaks = [i for i, x in enumerate(probe.xs) if x in br and (0 < i < probe.n_x)]
    if g.closed and probe.n_x > 0:
        roots_at_breaks.append(probe.n_x)        # the seam point, seen from the left

    def need_level(p, l):
        i = (p % (probe.n_x * UU)) // UU
        hx = (probe.xs[i + 1] - probe.xs[i]) / (1 << l)
        ht_root = min(b - a for a, b in zip(probe.ts[:-1], probe.ts[1:]))
        m = -1
        while m < 10 and hx * hx / (ht_root / (1 << (m + 1))) <= max_aspect:
            m += 1
        return m
    tg = _targets(case, probe.n_t, probe.n_x, probe.glued, roots_at_breaks if not g.circle else [], need_level)
    if tg is None:
        return probe, None, None, 'class_not_constructible_here'
    A, B = tg
    for bx in (A, B):
        (t0, t1), (x0, x1) = probe.real_box(bx)
        if (x1 - x0)**2 / (t1 - t0) > max_aspect * (1 + 1e-12):
            return probe, None, None, 'aspect_above_32'
    return probe, A, B, None


def realise_boxes(spec, A, B):
    """two boxes as coexisting leaves of one really bisected mesh -> (live, test, trial, reason)"""
    same = A.key == B.key
    overlap = (not same) and min(A.t1, B.t1) > max(A.t0, B.t0) and min(A.x1, B.x1) > max(A.x0, B.x0)
    if overlap:
        return None, None, None, 'boxes_overlap_cannot_coexist'
    live, ok = mesh_with(spec, [A] if same else [A, B])
    if not ok:
        return None, None, None, 'targets_not_coexisting_leaves'
    byk = live.leaf_by_key()
    return live, byk[A.key], byk[B.key], None


def far_thin_family():
    """deterministic pairs on the pi square (the largest diameter among the curves): a thin element (h_t = 1/128 ... 1/256)
    in one corner and a coarse element that starts earlier / later in the opposite corner, both roles -- panels several
    kernel widths sqrt(h_t) apart although the time lag of the pair is of order one"""
    spec = {'kind': 'param', 'curve': 'PiSquare', 'ts': [0.0, 1.0], 'xs': None}
    out = []
    # box = [space root, space level, index, time root, time level, index]
    thin_late = [[0, 4, 0, 0, 7, 127], [0, 4, 1, 0, 7, 100], [0, 3, 0, 0, 8, 255]]
    coarse_early = [[1, 2, 3, 0, 1, 0], [2, 2, 0, 0, 1, 0], [1, 1, 1, 0, 0, 0]]
    for a in thin_late:
        for b in coarse_early:
            out.append({'fam': 'two_boxes', 'spec': spec, 'A': a, 'B': b})      # thin late test, coarse early trial
    thin_mid = [[0, 6, 63, 0, 7, 63], [0, 5, 31, 0, 7, 63], [0, 6, 62, 0, 8, 127]]
    coarse_after = [[2, 2, 3, 0, 1, 1], [3, 2, 0, 0, 1, 1], [2, 1, 1, 0, 1, 1]]
    for a in thin_mid:
        for b in coarse_after:
            out.append({'fam': 'two_boxes', 'spec': spec, 'A': b, 'B': a})      # coarse test starting where the thin trial ends
    return out


def corner_piece_family():
    """deterministic: touching pairs of two *short* panels of very different length with the same time interval -- a leaf
    and a space half / quarter of its finer neighbour across the corner between the short and the long side of the
    L-shape (parameter 2) and across an interior root line; ratios 8 and 16 (leaves alone reach at most 4)"""
    spec = {'kind': 'param', 'curve': 'LShape', 'ts': [0.0, 1.0], 'xs': None}       # roots 0,1,2,4,6,7,8
    out = []
    for lt in (6, 5):
        # leaf [2, 2 + 2/2^lxA] on the long side, leaf [2 - 1/2^lxB, 2] on the short side
        for lxA, lxB in ((5, 6), (4, 5), (5, 5)):
            A = [2, lxA, 0, 0, lt, 0]
            B = [1, lxB, (1 << lxB) - 1, 0, lt, 0]
            for piece in ('x1', 'q1', 'q3'):
                out.append({'fam': 'two_boxes', 'spec': spec, 'A': A, 'B': B, 'piece': ['trial', piece]})
                out.append({'fam': 'two_boxes', 'spec': spec, 'A': B, 'B': A, 'piece': ['test', piece]})
    return out


def realise_two(case):
    spec = case['spec']
    if case.get('piece'):
        live, test, trial, reason = realise_two(dict(case, piece=None))
        if reason:
            return live, test, trial, reason
        which, kind = case['piece']
        if which == 'trial':
            trial = make_piece(live, trial, kind)
        else:
            test = make_piece(live, test, kind)
        return live, test, trial, None
    probe = Live(spec)

    def mk(b):
        root, lx, k, rt, lt, kt = b
        return box_from(probe.n_t, probe.n_x, rt * UU + kt * (UU >> lt), lt, root * UU + k * (UU >> lx), lx, probe.glued)
    A, B = mk(case['A']), mk(case['B'])
    if A is None or B is None:
        return None, None, None, 'class_not_constructible_here'
    return realise_boxes(spec, A, B)


def realise(case, max_aspect=32.0):
    """-> (live, test, trial, reason).  test/trial are real elements (or DummyElements); reason is None on success"""
    spec = case['spec']
    if case['fam'] == 'two_boxes':
        return realise_two(case)
    if case['fam'] == 'target':
        probe, A, B, reason = targets_for(case, max_aspect)
        if reason:
            return None, None, None, reason
        return realise_boxes(spec, A, B)
    live = Live(spec, min_hx=1e-4)
    for op in case['ops']:
        apply_op(live, op, cap=300)
    live.applied_ops = list(case['ops'])
    leaves = live.leaves()
    g = get_geo(spec['curve'])
    if case['fam'] == 'history':
        good = [e for e in leaves if aspect_ok(e, max_aspect)]
        if not good:
            return None, None, None, 'aspect_above_32'
        test = good[case['i'] % len(good)]
        want_s, want_t = case['sc'], case['tc']
        cands = []
        for e in good:
            sc, tc, near, info = classify(g, test.time_interval, test.space_interval, e.time_interval, e.space_interval)
            if (want_s == 'any' or sc.startswith(want_s)) and (want_t == 'any' or tc == want_t):
                cands.append(e)
        if not cands:
            cands = good
        trial = cands[case['j'] % len(cands)]
        return live, test, trial, None
    # piece family
    from src.hierarchical_error_estimator import DummyElement
    from src.mesh import Vertex
    leaf = leaves[case['i'] % len(leaves)]
    if case['other'] == 'same':
        other = leaf
    elif case['other'] == 'nbr':
        nb = [x for ed in leaf.edges for x in ed.neighbour_elements()]
        other = nb[case['j'] % len(nb)] if nb else leaf
    else:
        other = leaves[case['j'] % len(leaves)]
    piece = make_piece(live, other, case['piece'], case['real_children'])
    if piece is None:
        return None, None, None, 'piece_not_constructible'
    if not (aspect_ok(leaf, max_aspect) and aspect_ok(piece, max_aspect)):
        return None, None, None, 'aspect_above_32'
    if case['leaf_is_test']:
        return live, leaf, piece, None
    return live, piece, leaf, None


def make_piece(live, elem, kind, real_children=False):
    """time half / space half / quarter of a leaf: DummyElements as the estimators build them, or real children
    of a replayed copy of the mesh"""
    from src.hierarchical_error_estimator import DummyElement
    if real_children and kind[0] in 'tx':
        copy = Live(live.spec, min_hx=live.min_hx)
        for op in getattr(live, 'applied_ops', []):
            apply_op(copy, op, cap=300)
        key = live.skey(elem).key
        byk = copy.leaf_by_key()
        if key in byk:
            with repo.quiet():
                ch = copy.mesh.refine_axis(byk[key], 0 if kind[0] == 't' else 1)
            live._keep = copy
            return ch[int(kind[1])]
    quarters = DummyElement.uniform_refinement([elem])[0]
    # order: [v0,v01,vi,v30], [v01,v1,v12,vi], [v30,vi,v23,v3], [vi,v12,v2,v23] = (t-,x-), (t-,x+), (t+,x-), (t+,x+)
    if kind[0] == 'q':
        return quarters[int(kind[1])]
    v0, v1, v2, v3 = elem.vertices
    q = quarters
    if kind == 't0':
        vs = [v0, v1, q[1].vertices[2], q[0].vertices[3]]
    elif kind == 't1':
        vs = [q[2].vertices[0], q[3].vertices[1], v2, v3]
    elif kind == 'x0':
        vs = [v0, q[0].vertices[1], q[2].vertices[2], v3]
    else:
        vs = [q[1].vertices[0], v1, v2, q[3].vertices[3]]
    return DummyElement(vertices=vs, gamma_space=elem.gamma_space)
