#!/bin/bash
# usage: tools/runall.sh quick|thorough [ids...]   -- runs the registered checks one after the other on /repo itself
T=${1:-quick}; shift
IDS=${@:-C01 C02 C03 C04 C05 C06 C07 C08 C09 C10 C11 C12 C13 C14 C15 C16 C17 C18 C19 C20}
cd /verif
for id in $IDS; do
  s=$(date +%s); ./check $id $T > /tmp/runall.$id.$T.log 2>&1; rc=$?; e=$(date +%s)
  echo "$id $T rc=$rc $((e-s))s $(tail -1 /tmp/runall.$id.$T.log)"
done
