#!/bin/bash
# usage: tools/mutrun.sh <python-expression editing files | patch file> -- <check args...>
# Copies /repo to a scratch dir, applies a patch (git apply) or a python one-liner replacement, runs ./check with VERIF_REPO.
set -e
D=$(mktemp -d /tmp/mrepo.XXXX)
trap "rm -rf $D" EXIT
rsync -a --exclude .git /repo/ $D/
if [ -f "$1" ]; then (cd $D && patch -p1 -s < "$1"); else (cd $D && /venv/bin/python -c "$1"); fi
shift; shift
cd /verif && VERIF_REPO=$D VERIF_EVIDENCE_DIR=$D/_evidence "$@"
