#!/usr/bin/env python3
"""prints the markdown table of the latest thorough campaign per check from the logs of tools/runall.sh (helper for DESIGN.md 7.8)"""
import re, sys, glob
rows = {}
for f in sorted(glob.glob('/tmp/runall_thorough[345].log')):
    for l in open(f):
        m = re.match(r'(C\d\d) thorough rc=(\d) (\d+)s .*: (\d+) cases, (\d+) distinct non-trivial, (\d+) violations, (\d+) known', l)
        if m:
            rows[m.group(1)] = m.groups()[1:]
print('| check | cases | distinct non-trivial | violations | known findings seen | wall (s, 16 cores, machine shared) |')
print('|---|---|---|---|---|---|')
for k in sorted(rows):
    rc, wall, cases, nt, v, kn = rows[k]
    print('| %s | %s | %s | %s | %s | %s |' % (k, cases, nt, v, kn, wall))
