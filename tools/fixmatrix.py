#!/venv/bin/python
"""For every `fix:` commit in /repo: revert it in a scratch copy of HEAD and run the checks of the properties it belongs to;
a fixed entry suppresses nothing, so each must be reported again.  Records fixes/<commit>.json and copies up to two failing
inputs per check into regress/<id>/ (the replay tier).   usage: tools/fixmatrix.py [commit ...]"""
import json, os, re, shutil, subprocess, sys, tempfile
V = os.path.dirname(os.path.dirname(os.path.abspath(__file__)))
FIXES = [('ff4005a', ['C16', 'C08']), ('b9724f7', ['C05', 'C14']), ('e160047', ['C19']), ('28dbcba', ['C18']),
         ('18694e0', ['C06']), ('cef09ec', ['C02']), ('782888c', ['C03']), ('5d18a32', ['C09']), ('3739199', ['C05'])]
want = sys.argv[1:]
os.makedirs(os.path.join(V, 'fixes'), exist_ok=True)
for commit, checks in FIXES:
    if want and commit not in want:
        continue
    tmp = tempfile.mkdtemp(prefix='fixrun.')
    try:
        subprocess.check_call('git -C /repo archive HEAD | tar -x -C %s' % tmp, shell=True)
        diff = subprocess.check_output(['git', '-C', '/repo', 'show', commit])
        p = subprocess.run(['patch', '-R', '-p1', '-s'], input=diff, cwd=tmp)
        if p.returncode:
            print(commit, 'REVERT FAILED'); continue
        out = {'commit': commit, 'subject': subprocess.check_output(['git', '-C', '/repo', 'log', '-1', '--format=%s', commit]).decode().strip()}
        for chk in checks:
            env = dict(os.environ, VERIF_REPO=tmp, VERIF_EVIDENCE_DIR=os.path.join(tmp, '_evidence'))
            r = subprocess.run([os.path.join(V, 'check'), chk, 'quick'], cwd=V, env=env, stdout=subprocess.PIPE, stderr=subprocess.STDOUT)
            txt = r.stdout.decode(errors='replace')
            buckets = sorted(set(re.findall(r'bucket=(\S+)', txt)))
            out[chk + '/quick'] = {'exit': r.returncode, 'violation_buckets': buckets[:10], 'summary': txt.strip().split('\n')[-1]}
            print(commit, chk, 'exit', r.returncode, len(buckets), 'buckets', flush=True)
            for n, (pp, rp) in enumerate(re.findall(r'VIOLATION property=(\S+) replay=(\S+)', txt)[:2]):
                src_f = os.path.join(V, rp)
                if os.path.exists(src_f) and pp == chk:
                    dst = os.path.join(V, 'regress', chk)
                    os.makedirs(dst, exist_ok=True)
                    shutil.copy(src_f, os.path.join(dst, 'fix-%s-%d.json' % (commit, n)))
        json.dump(out, open(os.path.join(V, 'fixes', commit + '.json'), 'w'), indent=1, sort_keys=True)
    finally:
        shutil.rmtree(tmp, ignore_errors=True)
