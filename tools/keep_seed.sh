#!/bin/bash
# usage: tools/keep_seed.sh <PROP> <mX>   -- confirms a sub-agent's seeded change independently and stores it under seeded/
# (1) patch applies to a clean copy of /repo HEAD  (2) demo passes on the clean copy  (3) demo fails on the patched copy
# (4) the repository's test suite still gives 48 passed on the patched copy
P=$1; M=$2
SRC=/tmp/mut/$P/_out
D=$(mktemp -d /tmp/seedchk.XXXX)
trap "rm -rf $D" EXIT
mkdir -p $D/clean $D/mut
git -C /repo archive HEAD | tar -x -C $D/clean
git -C /repo archive HEAD | tar -x -C $D/mut
mkdir -p $D/clean/_out $D/mut/_out
cp $SRC/demo_$M.py $D/clean/_out/; cp $SRC/demo_$M.py $D/mut/_out/
sed -i "s#/tmp/mut/$P#$D/clean#g" $D/clean/_out/demo_$M.py
sed -i "s#/tmp/mut/$P#$D/mut#g" $D/mut/_out/demo_$M.py
(cd $D/mut && git apply --unsafe-paths -p1 $SRC/$M.diff 2>/dev/null || patch -p1 -s < $SRC/$M.diff) || { echo "$P $M: PATCH DOES NOT APPLY"; exit 1; }
(cd $D/clean && timeout 600 /venv/bin/python _out/demo_$M.py > $D/clean.log 2>&1); RC_CLEAN=$?
(cd $D/mut && timeout 600 /venv/bin/python _out/demo_$M.py > $D/mut.log 2>&1); RC_MUT=$?
(cd $D/mut && /venv/bin/python -m pytest -q -p no:cacheprovider --timeout=900 --continue-on-collection-errors 2>&1 | tail -1 > $D/pytest.log)
PYT=$(cat $D/pytest.log)
OK=no
if [ $RC_CLEAN -eq 0 ] && [ $RC_MUT -ne 0 ] && echo "$PYT" | grep -q "48 passed"; then OK=yes; fi
echo "$P $M: demo_clean_rc=$RC_CLEAN demo_mut_rc=$RC_MUT pytest='$PYT' confirmed=$OK"
if [ $OK = yes ]; then
  T=/verif/seeded/$P-$M
  mkdir -p $T
  cp $SRC/$M.diff $T/patch.diff
  cp $SRC/demo_$M.py $T/demo.py
  /venv/bin/python - <<PY
import json
m = json.load(open('$SRC/meta_$M.json'))
m['confirmed_by_harness_author'] = {'demo_on_clean_tree_exit': $RC_CLEAN, 'demo_on_patched_tree_exit': $RC_MUT,
   'pytest_on_patched_tree': '''$PYT'''.strip(), 'how': 'tools/keep_seed.sh: fresh archives of /repo HEAD, patch applied to one, demo run in both, full pytest in the patched one'}
json.dump(m, open('$T/meta.json', 'w'), indent=1)
PY
fi
