#!/venv/bin/python
"""Runs, for every kept seeded change, the quick check of the property it breaks (and optionally others) against a scratch
copy of /repo with the patch applied, and records the outcome in seeded/<id>/detected.json.
usage: tools/seedmatrix.py [--tier quick|thorough] [--also C01,C11] [ids...]"""
import json, os, re, shutil, subprocess, sys, tempfile
V = os.path.dirname(os.path.dirname(os.path.abspath(__file__)))
args = sys.argv[1:]
tier = 'quick'
also = []
ids = []
while args:
    a = args.pop(0)
    if a == '--tier':
        tier = args.pop(0)
    elif a == '--seed':
        os.environ['VERIF_SEED'] = args.pop(0)
    elif a == '--also':
        also = args.pop(0).split(',')
    else:
        ids.append(a)
if not ids:
    ids = sorted(os.listdir(os.path.join(V, 'seeded')))
ids = [i for i in ids if os.path.isdir(os.path.join(V, 'seeded', i))]
for sid in ids:
    d = os.path.join(V, 'seeded', sid)
    prop = json.load(open(os.path.join(d, 'meta.json')))['property']
    tmp = tempfile.mkdtemp(prefix='seedrun.')
    try:
        subprocess.check_call('git -C /repo archive HEAD | tar -x -C %s' % tmp, shell=True)
        subprocess.check_call(['patch', '-p1', '-s', '-i', os.path.join(d, 'patch.diff')], cwd=tmp)
        out = {}
        path = os.path.join(d, 'detected.json')
        if os.path.exists(path):
            out = json.load(open(path))
        for chk in [prop] + also:
            env = dict(os.environ, VERIF_REPO=tmp, VERIF_EVIDENCE_DIR=os.path.join(tmp, '_evidence'))
            p = subprocess.run([os.path.join(V, 'check'), chk, tier], cwd=V, env=env, stdout=subprocess.PIPE, stderr=subprocess.STDOUT)
            txt = p.stdout.decode(errors='replace')
            buckets = re.findall(r'bucket=(\S+)', txt)
            out['%s/%s%s' % (chk, tier, ('@seed' + os.environ['VERIF_SEED']) if os.environ.get('VERIF_SEED') else '')] = {'exit': p.returncode, 'violation_buckets': sorted(set(buckets))[:12],
                                          'summary': txt.strip().split('\n')[-1]}
            print(sid, chk, tier, 'exit', p.returncode, len(set(buckets)), 'buckets', flush=True)
            # keep up to two of the failing inputs as regression replays of that check
            reps = re.findall(r'VIOLATION property=(\S+) replay=(\S+)', txt)
            for n, (pp, rp) in enumerate(reps[:2]):
                src_f = os.path.join(V, rp)
                if os.path.exists(src_f) and pp == chk:
                    dst = os.path.join(V, 'regress', chk)
                    os.makedirs(dst, exist_ok=True)
                    shutil.copy(src_f, os.path.join(dst, '%s-%d.json' % (sid, n)))
        json.dump(out, open(path, 'w'), indent=1, sort_keys=True)
    finally:
        shutil.rmtree(tmp, ignore_errors=True)
