"""tiny helper for hand-made mutants: python tools/rep.py file 'old' 'new' (must match exactly once)"""
import sys
p, old, new = sys.argv[1:4]
s = open(p).read()
assert s.count(old) == 1, (p, old, s.count(old))
open(p, 'w').write(s.replace(old, new))
