#!/venv/bin/python
"""Regenerates MANIFEST.json from the table below (kept in one place so it stays valid)."""
import json, os
V = os.path.dirname(os.path.abspath(__file__))
CHECKS = {}   # filled by register()
def register(pid, technique, text, note, design_ref):
    CHECKS[pid] = dict(technique=technique, text=text, note=note, design_ref=design_ref)

register('C05', 'complete enumeration of the rule tables against closed-form moments in 80-digit arithmetic',
         'Finite domain enumerated completely (every table key x every advertised moment, on the literal text and on the '
         'returned doubles); exploration level with exhaustive=true, no proof claimed about mpmath.',
         'mpmath at 80 digits; closed-form moments; advertised class read from the docstrings', 'DESIGN.md 3/C05')

register('C02', 'bounded exhaustive BFS + Hypothesis operation histories in lock-step with an exact dyadic-box reference model',
         'All bisection sequences to depth 4 (quick) / 5 (thorough) on six small initial meshes, every distinct state compared with the model; '
         'plus generated histories of all operation kinds on float grids and every curve. Exploration: exhaustive inside the bound, sampled beyond it.',
         'reference model vlib/meshmodel.py (geometric neighbours + forced-repair closure); marking/grading judged by validity only here', 'DESIGN.md 3/C02, 2.2')
register('C10', 'same BFS + histories; per-edge neighbour sets compared with the geometric neighbour rule of the reference model',
         'Every (leaf, edge) of every explored state: reported neighbours == leaves sharing a positive-length piece of the edge (seam identified), '
         'symmetry, <= 2, flags. Exhaustive inside the BFS bound, sampled beyond.',
         'geometric rule evaluated on structural keys; agreement of keys and coordinates is C02', 'DESIGN.md 3/C10')

register('C19', 'bounded BFS states + Hypothesis histories followed by refine_grading, validity oracle (window, refinement, model invariants)',
         'Every BFS state to depth 2/3 x three exponents, plus generated biased histories on all curves; checks termination within a budget, '
         'no exception, only-refines, parabolic window on every leaf, and all C02/C10 invariants on the result.',
         'size of the graded mesh predicted on the reference model to bound the case; time budget overruns are inconclusive', 'DESIGN.md 3/C19')
register('C06', 'complete enumeration of marked subsets on small meshes + Hypothesis marking histories against an exact-rational bulk criterion and the model closure',
         'All non-empty subsets (iso n<=6, aniso n<=4) on every BFS state to depth 2, plus generated histories with 1-3 marking steps and adversarial '
         'indicator recipes; outcome must equal the model closure for some admissible bulk set.',
         'reference model closure; Fractions on the double inputs; ties at the cut accept any admissible prefix', 'DESIGN.md 3/C06')

register('C18', 'Hypothesis-generated curves (shipped + rectilinear polygons/polylines), grids and histories against independent vertex-list geometry',
         'Arc length, side lengths, continuity, closure, eval == piece value (scalar and vector, at and +-1 ulp around break points), piece identity/containment of every '
         'element of the tree, >= 3 elements around closed curves for every time grid, <= 1 common end point.',
         'vlib/geo.py vertex lists; integer/dyadic rectilinear vertex chains are required to be accepted by the constructor', 'DESIGN.md 3/C18')

register('C15', 'Hypothesis-generated (base rule, constructor, mirror sequence, box) with exhaustive monomial exactness per case; algebraic laws',
         'Every tabulated base rule x every derived constructor on a fixed offset box (complete) plus generated boxes and mirror call orders; all monomials of the advertised '
         'total degree per case; involution / non-aliasing of mirrors; sym vs non-sym Duffy; convergence of log-singular model integrals to mpmath closed forms.',
         'tolerance 1e-12 plus node-rounding term for boxes far from the origin; symmetric Duffy variants are tested on symmetric integrands only (what they are for)', 'DESIGN.md 3/C15')

register('C14', 'Hypothesis-generated orders, intervals, rational polynomials and placements against exact rational closed forms; algebraic laws; graded corner reference',
         'H^1/4 and H^1/2 seminorm routines vs closed forms in Fractions (1e-12, scaled by the conditioning of differencing a function with large mean), '
         'non-negativity, constants, quadratic scaling, translation, straight-segment variant == flat, two-piece corner vs independent graded reference.',
         'closed forms of vlib/slobo.py; corner reference accepted only when two resolutions agree to 1e-8', 'DESIGN.md 3/C14')

register('C01', 'class-stratified Hypothesis pairs (target-driven meshes, histories, leaf/piece) against an independent reference integral',
         'Each pair is two coexisting leaves of a really bisected mesh (or leaf + estimator piece); bilform on both switches compared with the analytic-in-time / '
         'graded-Gauss-in-space reference at two resolutions in the metric of the property (1e-7 sqrt(D D)). Sampled, with every branch class of the panel '
         'splitting a generated class with a measured count.',
         'vlib/refint.py + vlib/geo.py; domain bound for close disjoint pairs of size ratio > 8 (DESIGN.md 2.1)', 'DESIGN.md 3/C01, 2.1, 2.3')

register('C04', 'Hypothesis pairs / matrices / points with exact-zero, sign and positivity oracles against a positive low-order reference',
         'Acausal => exactly 0.0, causal => non-negative and positive where the reference exceeds 1e-240, for bilform (both switches), the three assembly paths of '
         'bilform_matrix incl. rectangular lists and the pool with 1..4 workers, MP_SL_matrix_col, evaluate, evaluate_exact, potential, at times incl. t_start, '
         'nextafter(t_start), t_end. Three narrow known findings (closed-form noise, unresolved spike).',
         'magnitude reference only needed within 1e10; known findings keyed by call site and magnitude window', 'DESIGN.md 3/C04, 4')

register('C11', 'Hypothesis pairs x all 4x4 split combinations, metamorphic additivity of bilform',
         'Sum over DummyElement pieces / real children equals the unsplit entry within 1e-7 sqrt(D D) for every class of pair and both switches.',
         'relation of the code with itself; scale from the independent low-order reference', 'DESIGN.md 3/C11')
register('C12', 'Hypothesis pairs and their images under exchange / time shift / curve motions, each realised as leaves of a really bisected mesh',
         'Bitwise equality under exchange of space intervals and dyadic time shifts; 1e-7 sqrt(D D) under quarter turns, rotations by whole roots and reflection, '
         'incl. images across the seam or on another side.',
         'relation of the code with itself; only curves that possess the motion', 'DESIGN.md 3/C12')
register('C13', 'Hypothesis-generated and deterministic graded meshes; smallest eigenvalue of the scaled symmetric part of the assembled matrix and of 4x4 child blocks',
         'lambda_min(D^-1/2 sym(A) D^-1/2) > 0.01 on 64 (quick) / 240 (thorough) generated meshes up to 120 / 400 elements plus a deterministic family graded towards '
         'seam, corner and final time, both switches; child blocks and the three hierarchical scalings positive.',
         'numpy eigvalsh; serial assembly path', 'DESIGN.md 3/C13')

register('C07', 'Hypothesis (element, time class, position class) points against a 1-D graded reference integral; integral clause against bilform',
         'evaluate / evaluate_exact / evaluate_vector at stratified points incl. end points, the near layer, the seam, neighbouring sides, points facing the element across thin polygons, line/arc curves, both values of the operator switch, thin old elements, with the three tolerances '
         'of the property (known finding K7 recorded); tensor Gauss integral of the evaluation over later test elements reproduces the Galerkin entry.',
         'vlib/refint.evaluate at two resolutions; preconditions of the property (1e-5 end distance, ratio <= 16) enforced and counted', 'DESIGN.md 3/C07')

register('C16', 'bounded exhaustive BFS over cell refinements + Hypothesis sequences + complete enumeration of dyadic boundary segments against an integer-grid model',
         'All refinement sequences to depth 4/5 on three domains (dedup by leaf set), generated sequences, every dyadic segment l<=6 of every unit side piece '
         '(sampled for 7..10) in both orientations and four input forms on fresh meshes, and targeting on meshes with a generated history: tiling, 2:1 balance, '
         'vertex uniqueness, unique owning leaf, vertex lookup, edge length.',
         'integer grid of 2^-12 units (unit 1 or pi) with 1e-9 tolerance', 'DESIGN.md 3/C16')
register('C08', 'Hypothesis (domain, history, boundary leaf, initial datum) against closed-form heat extensions integrated by graded Gauss; linearity, additivity, path equality',
         'linform vs element integral of the independent closed form (1e-5 / 1e-6), linearity, additivity over halves and quarters, pointwise evaluate vs closed form, '
         'linform_vector serial/pool/successive calls == element-wise values.',
         'vlib/heatext.py closed forms (self-tested); two-resolution guard on the element integral', 'DESIGN.md 3/C08')

register('C17', 'Hypothesis-generated call histories against one cache directory with file-damage injection; bitwise comparison with single-pair evaluation',
         'Every assemble / linform_vector call of a generated history (inline, serial, pool with 1..16 workers, cache hit, recomputation after delete / empty / header / half / '
         'one-byte-short / garbage damage, faults in the middle of a computation, fresh operator objects, colliding-repr lists of two curves, equal-size and long lists, chunk sizes that do not divide the list, a 160 x 120 matrix) returns the single-pair array bit for bit and leaves a loadable file.',
         'OS scheduling of the workers is not controlled; worker count, chunking and history are', 'DESIGN.md 3/C17')

register('C20', 'Hypothesis (mesh history, data configuration, density, path) against an independent recomputation on a replayed, really bisected mesh',
         'h-h/2 estimate == energy norm of fine Galerkin solution minus extension, assembled from single-pair calls in a different element order (1e-6); vanishing case; '
         'hierarchical indicators from geometric sign patterns and single-pair entries; non-negativity; Prolongate vs geometric containment; serial and pool.',
         'single-pair bilform / linform as building blocks (C01 / C08); numerators compared relative to the magnitude of their contributions', 'DESIGN.md 3/C20')

register('C09', 'Hypothesis (mesh history, element, residual family, order, path) against an independent evaluation of the Slobodeckij double integrals on the geometric union patch',
         'Per element: time and space Sobolev indicators and weighted-L2 indicators vs definition with neighbours from the model (exact rational on straight patches 1e-8, '
         'graded numerical reference on corner / seam / circle patches 1e-4 at orders 17, 19); serial == pool bitwise incl. two successive residuals on one estimator; '
         'assembled == per-element sums; rotation equivariance.',
         'vlib/slobo.py closed forms and references; patches longer than half the curve, corner patches of piece ratio > 4 and polynomial data kinked inside a seam arc are excluded and counted', 'DESIGN.md 3/C09')

register('C03', 'generated problem/domain/switch/history cases through the driver\'s steps and the real example.py (runpy) with the residual integrated per element by an independent graded rule',
         'All 12 problem x domain combinations, both switches: assemble, solve, ErrorEstimator.residual; zero mean on every leaf within 5e-5 int|r| + 1e-12 at two quadrature '
         'resolutions; example.py itself for its first 2-3 adaptive loops (anisotropic / uniform) with ErrorEstimator.residual wrapped; deterministic nested-interval meshes.',
         'vlib/c03lib.py rule (two resolutions must agree to a tenth of the bound); meshes with a node within 1e-5 of an element end or above the point budget excluded and counted', 'DESIGN.md 3/C03')

NOT_YET = {}
def main():
    props = [json.loads(l)['id'] for l in open(os.path.join(V, 'properties.jsonl'))]
    checks = []
    na = []
    for pid in props:
        if pid in CHECKS and os.path.exists(os.path.join(V, 'vlib', 'checks', pid.lower() + '.py')):
            c = CHECKS[pid]
            checks.append({
                'property_id': pid,
                'quick_cmd': './check %s quick' % pid,
                'thorough_cmd': './check %s thorough' % pid,
                'evidence_file': 'evidence/%s.json' % pid,
                'replay_cmd_template': './check %s --replay {path}' % pid,
                'engine': 'vlib',
                'level_claimed': {'category': 'exploration', 'text': c['text'], 'design_ref': c['design_ref']},
                'level_note': c['note'],
                'technique': c['technique'],
            })
        else:
            na.append({'property_id': pid, 'reason': NOT_YET.get(pid, 'check designed in DESIGN.md section 3 but not yet built in this tree; not claimed until it is')})
    m = {
        'version': 1,
        'setup_cmd': '(/venv/bin/python -c "import hypothesis, mpmath" || /venv/bin/pip install --no-index --find-links /opt/veriftools/wheels hypothesis mpmath) && (/venv/bin/pip install -q --no-index --find-links /opt/veriftools/wheels --target /verif/.deps atheris || echo "atheris not installed: the supplementary fuzz campaign of C02/C10 thorough is skipped")',
        'hooks': {'guard': 'RVANVENETIE_STBEM_VERIF', 'enable': 'no source hooks: the checks import /repo\'s working tree as is (pure Python) and set RVANVENETIE_STBEM_VERIF=1 for completeness',
                  'baseline_off_cmd': 'cd /repo && /venv/bin/python -m pytest -ra -q -p no:cacheprovider --timeout=900 --continue-on-collection-errors',
                  'source_commits': [], 'add_only': True},
        'engines': [{'name': 'vlib', 'path': 'vlib/', 'serves_properties': [c['property_id'] for c in checks],
                     'kind_free_text': 'Hypothesis strategies / stateful machines / complete enumeration against independent reference models and reference integrals; runner ./check'}],
        'checks': checks,
        'not_applicable': na,
        'notes': 'All checks are property-based tests (Hypothesis 6.168) or complete enumerations of finite domains, run by ./check <id> quick|thorough against /repo\'s working tree. Known findings: known_findings.json.',
    }
    json.dump(m, open(os.path.join(V, 'MANIFEST.json'), 'w'), indent=1)
    print('checks:', [c['property_id'] for c in checks], 'n/a:', len(na))
if __name__ == '__main__':
    main()
